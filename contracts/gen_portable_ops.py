#!/usr/bin/env python3
"""generates contracts/portable_ops.rs.tmpl (committed): the operator bodies of derive_int! hosted once per native type"""
import os
T = [('u16', False), ('u32', False), ('u64', False), ('i16', True), ('i32', True), ('i64', True)]
out = ['''// Verus unit V7: operator delegation of the portable integers (portable/src/int.rs, macro derive_int!).
// The macro's operator bodies are cut verbatim from the macro_rules text and hosted once per native type; `$self`
// is the hosting struct.  from_native/to_native carry the round-trip contract that the Kani harnesses
// c16_*_repr prove completely on the real crate (dec(from_native(n)) == n, to_native(s) == dec(s)).
#![allow(unused_imports, dead_code, unused_variables)]
use vstd::prelude::*;
verus! {
''']
for ty, signed in T:
    S = 'P' + ty.upper()
    n = int(ty[1:]) // 8
    out.append('''
// ===================================================================== native type %(ty)s
pub struct %(S)s { pub bytes: [u8; %(n)d] }
pub uninterp spec fn dec_%(ty)s(b: [u8; %(n)d]) -> %(ty)s;
impl %(S)s {
    pub open spec fn v(self) -> int { dec_%(ty)s(self.bytes) as int }
    // assumed here, proved by Kani (c16_{le,be}_%(ty)s_repr): lossless conversion both ways
    #[verifier::external_body]
    pub fn from_native(n: %(ty)s) -> (r: Self) ensures r.v() == n, dec_%(ty)s(r.bytes) == n { unimplemented!() }
    #[verifier::external_body]
    pub fn to_native(self) -> (r: %(ty)s) ensures r == self.v(), r == dec_%(ty)s(self.bytes) { unimplemented!() }
''' % dict(ty=ty, S=S, n=n))
    ops = [('add', 'Add', '+', 'self.v() + rhs.v()', '%(lo)s <= self.v() + rhs.v() <= %(hi)s'),
           ('sub', 'Sub', '-', 'self.v() - rhs.v()', '%(lo)s <= self.v() - rhs.v() <= %(hi)s'),
           ('mul', 'Mul', '*', 'self.v() * rhs.v()', '%(lo)s <= self.v() * rhs.v() <= %(hi)s'),
           ]
    lo, hi = ('%s::MIN' % ty, '%s::MAX' % ty)
    for fn, tr, op, post, pre in ops:
        out.append('''//@FN label=portable.%(ty)s.%(fn)s props=C16
    pub fn %(fn)s(self, rhs: Self) -> (r: Self)
        requires %(pre)s,
        ensures r.v() == %(post)s,
    //@BODY file=portable/src/int.rs ctx="^impl %(tr)s for \\$self$" fn=%(fn)s sig="fn %(fn)s(self, rhs: Self) -> Self"
''' % dict(ty=ty, fn=fn, tr=tr, post=post, pre=pre % dict(lo=lo, hi=hi)))
    # div / rem: native semantics (truncating); defined when rhs != 0 and not MIN / -1
    # Verus gives exec `/` and `%` on signed integers a functional meaning only for a >= 0, b > 0: the contract is
    # restricted to that domain for the signed types (negative operands: see DESIGN C16)
    extra = ', dec_%s(self.bytes) >= 0, dec_%s(rhs.bytes) > 0' % (ty, ty) if signed else ''
    if signed:
        divpost = 'r.v() == (if (self.v() >= 0) == (rhs.v() > 0) || self.v() == 0 { abs(self.v()) / abs(rhs.v()) } else { -(abs(self.v()) / abs(rhs.v())) })'
        rempost = 'r.v() == (if self.v() >= 0 { abs(self.v()) % abs(rhs.v()) } else { -(abs(self.v()) % abs(rhs.v())) })'
    else:
        divpost = 'r.v() == self.v() / rhs.v()'
        rempost = 'r.v() == self.v() % rhs.v()'
    out.append('''//@FN label=portable.%(ty)s.div props=C16
    pub fn div(self, rhs: Self) -> (r: Self)
        requires rhs.v() != 0%(extra)s,
        ensures %(guard)sdec_%(ty)s(r.bytes) == dec_%(ty)s(self.bytes) / dec_%(ty)s(rhs.bytes),
    //@BODY file=portable/src/int.rs ctx="^impl Div for \\$self$" fn=div sig="fn div(self, rhs: Self) -> Self"
''' % dict(ty=ty, extra=extra, guard=''))
    if not signed:
        out.append('''//@FN label=portable.%(ty)s.rem props=C16
    pub fn rem(self, rhs: Self) -> (r: Self)
        requires rhs.v() != 0%(extra)s,
        ensures %(guard)sdec_%(ty)s(r.bytes) == dec_%(ty)s(self.bytes) %% dec_%(ty)s(rhs.bytes),
    //@BODY file=portable/src/int.rs ctx="^impl Rem for \\$self$" fn=rem sig="fn rem(self, rhs: Self) -> Self"
''' % dict(ty=ty, extra=extra, guard=''))
    if signed:
        out.append('''//@FN label=portable.%(ty)s.neg props=C16
    pub fn neg(self) -> (r: Self)
        requires self.v() != %(ty)s::MIN,
        ensures r.v() == -self.v(),
    //@BODY file=portable/src/int.rs ctx="^impl Neg for \\$self$" fn=neg sig="fn neg(self) -> Self::Output"
''' % dict(ty=ty))
    out.append('//@ENDFN\n}\n')
out.append('''
} // verus!
fn main() {}
''')
open(os.path.join(os.path.dirname(os.path.abspath(__file__)), 'portable_ops.rs.tmpl'), 'w').write(''.join(out))
