//! D34 (C10): a FlexVec offset smaller than the offset slot was reported as InsufficientSize, so a stream receiver kept asking
//! for more input (until OutOfMemory) for a message that can never become valid, instead of reporting a parse error
use flatty::{error::ErrorKind, prelude::*, AlignedBytes, FlexVec};
fn main() {
    let mut mem = AlignedBytes::new(12, 4);
    mem.copy_from_slice(&[2, 0, 0, 0, 1, 2, 3, 4, 0, 0, 0, 0]); // FlexVec<u32,u8>: slot is 4 bytes, offset 2 < 4
    let r = FlexVec::<u32, u8>::validate(&mem);
    println!("validate -> {:?}", r);
    match r {
        Err(e) if e.kind != ErrorKind::InsufficientSize && e.pos == 0 => println!("PASS D34: malformed offset is a content error at the slot"),
        _ => { println!("FAIL D34: a malformed offset is reported as InsufficientSize (a receiver would wait for more input)"); std::process::exit(1) }
    }
}
