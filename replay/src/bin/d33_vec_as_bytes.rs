//! D33 (C02, C11): as_bytes() of a FlatVec whose item size is not a multiple of the vector's alignment was shorter than the
//! value: the value's own bytes did not validate again / re-mapped to a smaller capacity
use flatty::{prelude::*, AlignedBytes, FlatVec};
fn main() {
    let mut mem = AlignedBytes::new(6, 2);
    mem.copy_from_slice(&[0, 0, 9, 9, 9, 9]);
    let v = FlatVec::<[u8; 3], u16>::from_mut_bytes(&mut mem).unwrap();
    v.push([1, 2, 3]).unwrap();
    let (cap, size, ab) = (v.capacity(), v.size(), v.as_bytes().len());
    let again = FlatVec::<[u8; 3], u16>::from_bytes(v.as_bytes()).map(|w| (w.len(), w.capacity()));
    println!("capacity {} size() {} as_bytes().len() {} ; re-mapping as_bytes(): {:?}", cap, size, ab, again);
    if again == Ok((1, cap)) && size <= ab { println!("PASS D33: the value's own bytes validate again and re-map to the same state") }
    else { println!("FAIL D33: as_bytes() is shorter than the value (size() {} > {}) and does not re-map to the same state", size, ab); std::process::exit(1) }
}
