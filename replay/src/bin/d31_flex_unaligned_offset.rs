//! D31 (C02, C05): FlexVec accepts an offset that is not a multiple of its alignment when the next slot is a terminator;
//! size() then exceeds the bytes the value was mapped from.
use flatty::{prelude::*, AlignedBytes, FlexVec};
fn main() {
    // FlexVec<u32, u8>: slot 4 bytes (1-byte offset + 3 bytes padding), ALIGN 4.  One item at 0 with offset 9, terminator at 9.
    let mut mem = AlignedBytes::new(12, 4);
    mem.copy_from_slice(&[9, 0, 0, 0, 1, 2, 3, 4, 0xaa, 0, 0xbb, 0xcc]);
    let r = FlexVec::<u32, u8>::from_bytes(&mem);
    match r {
        Ok(v) => {
            println!("accepted: len()={} size()={} mapped from {} bytes", v.len(), v.size(), mem.len());
            if v.size() > mem.len() {
                println!("FAIL D31: size() {} exceeds the {} mapped bytes (offset 9 is not a multiple of ALIGN 4)", v.size(), mem.len());
                std::process::exit(1);
            }
        }
        Err(e) => println!("PASS D31: rejected with {:?}", e),
    }
}
