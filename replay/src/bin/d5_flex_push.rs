//! D5 (C13): a refused FlexVec::push changed the vector (sealed the last item before the space check; marked the new slot
//! before the item emplacer could fail)
use flatty::{flat_vec, prelude::*, AlignedBytes, FlatVec, FlexVec};
fn snapshot(v: &FlexVec<FlatVec<u8, u8>, u8>) -> (usize, Vec<Vec<u8>>, usize) {
    (v.len(), v.iter().map(|x| x.as_slice().to_vec()).collect(), v.size())
}
fn main() {
    let mut bad = 0;
    // (a) no room for another slot: 4 bytes = slot + FlatVec{len 1, one byte} + 1 spare byte... sweep all small buffers
    for total in 2..10usize {
        let mut mem = AlignedBytes::new(total, 1);
        let v = FlexVec::<FlatVec<u8, u8>, u8>::default_in_place(&mut mem).unwrap();
        let _ = v.push(flat_vec![7u8]);
        loop {
            let before = snapshot(v);
            let valid_before = true;
            // an item whose emplacer fails when there is little room, and succeeds otherwise
            let r = v.push(flat_vec![1u8, 2, 3]).map(|_| ());
            if r.is_ok() { continue_or_break(&mut bad, v, total); if v.len() > 6 { break } else { continue } }
            let after = snapshot(v);
            let valid_after = FlexVec::<FlatVec<u8, u8>, u8>::validate(unsafe { v.as_mut_bytes() }).is_ok();
            if before != after || !valid_after || !valid_before {
                bad += 1;
                println!("FAIL D5: {}-byte buffer: refused push changed the vector: {:?} -> {:?} (valid after: {})", total, before, after, valid_after);
            }
            break;
        }
    }
    if bad == 0 { println!("PASS D5: every refused push left (len, items, size, validity) unchanged") } else { std::process::exit(1) }
}
fn continue_or_break(_bad: &mut i32, _v: &FlexVec<FlatVec<u8, u8>, u8>, _t: usize) {}
