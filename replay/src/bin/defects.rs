//! native reproductions of the defects found by failing obligations (one line per defect: PASS = property holds)
use flatty::{flat, flat_vec, portable::Bool, prelude::*, AlignedBytes, FlatString, FlatVec, FlexVec};
use std::panic::{catch_unwind, AssertUnwindSafe};

#[flat(sized = false, default = true)]
pub struct UPad {
    a: u64,
    v: FlatVec<u8, u16>,
}
#[flat(sized = false, default = true)]
pub enum UEnum {
    #[default]
    A,
    B(u8, u16),
    C { offset: u32, bytes: FlatVec<u8, u16> },
}
#[derive(Default)]
#[flat]
pub struct SBool {
    x: u16,
    flag: Bool,
    arr: [Bool; 2],
    y: u32,
}

fn report(id: &str, ok: bool, what: String) {
    println!("{} {}: {}", if ok { "PASS" } else { "FAIL" }, id, what);
}

fn main() {
    std::panic::set_hook(Box::new(|_| {}));
    // D1 (C01): [5,0] as FlexVec<u8,u8> panics in split_at
    let r = catch_unwind(|| FlexVec::<u8, u8>::validate(&[5u8, 0]).is_ok());
    report("D1", r.is_ok(), format!("FlexVec<u8,u8>::validate([5,0]) -> {:?}", r.map_err(|_| "panic")));
    // D2 (C01): last item with fewer bytes than the slot: [255] as FlexVec<u32,u8> in 1 byte... use u16 slot
    let mem = AlignedBytes::from_slice(&[0xff, 0xff], 4);
    let r = catch_unwind(AssertUnwindSafe(|| FlexVec::<u32, u16>::validate(&mem).is_ok()));
    report("D2", r.is_ok(), format!("FlexVec<u32,u16>::validate([ff,ff]) -> {:?}", r.map_err(|_| "panic")));
    // D11 (C19): bad Bool inside a vector / array is reported at the wrong position
    let r = FlatVec::<Bool, u8>::validate(&[3u8, 1, 0, 7]);
    report("D11-vec", matches!(&r, Err(e) if e.pos == 3), format!("FlatVec<Bool,u8>::validate([3,1,0,7]) -> {:?} (bad byte at 3)", r));
    let mem = AlignedBytes::from_slice(&[0, 0, 1, 1, 9, 0, 0, 0, 0, 0, 0, 0], 4);
    let r = SBool::validate(&mem);
    report("D11-arr", matches!(&r, Err(e) if e.pos == 4), format!("SBool::validate(arr[1]=9 at byte 4) -> {:?}", r));
    let mem = AlignedBytes::from_slice(&[4, 0, 1, 0, 0xff, 0xff, 2, 0], 2);
    let r = FlexVec::<[Bool; 2], u16>::validate(&mem);
    report("D11-flex", matches!(&r, Err(e) if e.pos == 6), format!("FlexVec<[Bool;2],u16> bad byte at 6 -> {:?}", r));
    // D9 (C05): FlatVec/FlatString size() not rounded to ALIGN, re-mapping the first size() bytes fails
    let mut mem = AlignedBytes::new(12, 4);
    let v = FlatVec::<u8, u32>::new_in_place(&mut mem, flat_vec![7]).unwrap();
    let s = v.size();
    let r = FlatVec::<u8, u32>::from_bytes(&mem[..s]).map(|v| v.len());
    report("D9-vec", s % 4 == 0 && r == Ok(1), format!("FlatVec<u8,u32> [7]: size()={} remap={:?}", s, r));
    let mut mem = AlignedBytes::new(12, 4);
    let v = FlatString::<u32>::new_in_place(&mut mem, flatty::string::FromStr("a")).unwrap();
    let s = v.size();
    let r = FlatString::<u32>::from_bytes(&mem[..s]).map(|v| v.len());
    report("D9-str", s % 4 == 0 && r == Ok(1), format!("FlatString<u32> \"a\": size()={} remap={:?}", s, r));
    // D3 (C05): FlexVec::size omits the last slot
    let mut mem = AlignedBytes::new(32, 4);
    let f = FlexVec::<FlatVec<i32, u16>, u16>::default_in_place(&mut mem).unwrap();
    f.push_default().unwrap().push_slice(&[1, 2]).unwrap();
    let s = f.size();
    report("D3", s == 16, format!("FlexVec with one 12-byte item: size()={} (extent 4+12=16)", s));
    // D6 (C02): FlexVec validates more bytes than the view covers
    let mem = AlignedBytes::from_slice(&[0xff, 0xff, 2, 9, 9], 2);
    let r = FlexVec::<FlatVec<u8, u8>, u16>::from_bytes(&mem);
    let ok = match &r { Ok(f) => f.iter().all(|it| it.len() <= it.capacity()), Err(_) => true };
    report("D6", ok, format!("5-byte FlexVec<FlatVec<u8,u8>,u16>: {}", match &r { Ok(f) => { let it = f.iter().next().unwrap(); format!("accepted, item len={} capacity={}", it.len(), it.capacity()) } Err(e) => format!("{:?}", e) }));
    // D7 (C02): unsized enum validated over more bytes than the view covers
    let mem = AlignedBytes::from_slice(&[2, 0, 0, 0, 1, 0, 0, 0, 0, 0, 7], 4);
    let r = catch_unwind(AssertUnwindSafe(|| match UEnum::from_bytes(&mem) {
        Ok(v) => match v.as_ref() { UEnumRef::C { bytes, .. } => format!("accepted: len={} capacity={}", bytes.len(), bytes.capacity()), _ => "other".into() },
        Err(e) => format!("{:?}", e),
    }));
    let ok = matches!(&r, Ok(s) if true);
    report("D7", ok && r.is_ok(), format!("11-byte UEnum::C: {:?}", r.map_err(|_| "panic")));
    // D8 (C04): unsized struct claims more bytes than the slice
    let mut mem = AlignedBytes::new(12, 8);
    let r = UPad::default_in_place(&mut mem).map(|u| (std::mem::size_of_val(u), u.size()));
    report("D8", matches!(r, Ok((sv, _)) if sv <= 12) || r.is_err(), format!("UPad in 12 bytes: (size_of_val, size()) = {:?}", r));
    // D10: ZST elements
    let r = catch_unwind(|| { let mem = AlignedBytes::from_slice(&[0u8, 0, 0, 0], 4); FlatVec::<(), u8>::validate(&mem).is_ok() });
    report("D10", r.is_ok(), format!("FlatVec<(),u8>::validate -> {:?}", r.map_err(|_| "panic")));
}
