//! D13 (C09): a write error before the first byte of a message is swallowed and retried forever.
//! Sink: fails every call with ErrorKind::Other and counts the calls; gives up (by panicking out of the
//! sender through `process::exit`) after 10_000 calls, which the fixed code never reaches.
use flatty::{flat, prelude::*};
use flatty_io::blocking::IoSender;
use std::io::{self, Write};

#[flat(sized = false, default = true)]
enum Msg {
    #[default]
    A,
    B(i32),
}

struct FailingSink {
    calls: usize,
}
impl Write for FailingSink {
    fn write(&mut self, _buf: &[u8]) -> io::Result<usize> {
        self.calls += 1;
        if self.calls >= 10_000 {
            println!("FAIL: write() called {} times and send() has still not returned (infinite retry)", self.calls);
            std::process::exit(1);
        }
        Err(io::Error::new(io::ErrorKind::Other, "sink broken"))
    }
    fn flush(&mut self) -> io::Result<()> {
        Ok(())
    }
}

fn main() {
    let mut sender = IoSender::<Msg, _>::io(FailingSink { calls: 0 }, 16);
    let res = sender.alloc().unwrap().default_in_place().unwrap().send();
    match res {
        Err(e) => println!("OK: send() returned Err({:?}) after a bounded number of pipe calls", e.kind()),
        Ok(()) => {
            println!("FAIL: send() reported success although the sink accepted nothing");
            std::process::exit(1);
        }
    }
}
