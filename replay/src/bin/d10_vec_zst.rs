//! D10 (C01): FlatVec of a zero-sized element type divided by zero while mapping / validating
use flatty::{prelude::*, FlatVec};
use std::panic::catch_unwind;
fn main() {
    std::panic::set_hook(Box::new(|_| {}));
    let r = catch_unwind(|| {
        let mut b = [2u8, 0, 0, 0];
        let ok = FlatVec::<(), u8>::validate(&b).is_ok();
        let v = FlatVec::<(), u8>::from_mut_bytes(&mut b).unwrap();
        let (l0, c0, s0) = (v.len(), v.capacity(), v.size());
        v.push(()).unwrap();
        (ok, l0, c0, s0, v.len(), v.size())
    });
    match r {
        Ok(t) => println!("PASS D10: FlatVec<(),u8> on [2,0,0,0]: (valid, len, capacity, size, len after push, size) = {:?}", t),
        Err(_) => { println!("FAIL D10: FlatVec<(),u8>::validate panicked (division by zero in ptr_from_bytes)"); std::process::exit(1) }
    }
}
