//! D12 (C18): a failed assign_in_place of a larger enum variant overwrote the tag before the size check: the target was
//! left with the new tag over the old payload (invalid; size()/as_ref() then panicked)
use flatty::{flat, flat_vec, prelude::*, AlignedBytes, FlatVec};
use std::panic::{catch_unwind, AssertUnwindSafe};
#[flat(sized = false, default = true)]
pub enum UEnum {
    #[default]
    A,
    B(u8, u16),
    C { offset: u32, bytes: FlatVec<u8, u16> },
}
fn main() {
    std::panic::set_hook(Box::new(|_| {}));
    let mut mem = AlignedBytes::new(8, 4);
    mem.copy_from_slice(&[1, 0, 0, 0, 0xab, 0, 0xef, 0xcd]); // B(0xab, 0xcdef)
    let before = mem.to_vec();
    let r = {
        let v = UEnum::from_mut_bytes(&mut mem).unwrap();
        v.assign_in_place(UEnumInitC { offset: 7u32, bytes: flat_vec![] }).map(|_| ())
    };
    let valid = UEnum::validate(&mem).is_ok();
    let usable = catch_unwind(AssertUnwindSafe(|| unsafe { UEnum::from_bytes_unchecked(&mem) }.size())).is_ok();
    println!("assign C into an 8-byte B: {:?}; bytes after = {:?}; validates: {}; size() usable: {}", r, &mem[..], valid, usable);
    if r.is_err() && valid && usable && mem[..] == before[..] {
        println!("PASS D12: the failed assignment left the value valid and unchanged");
    } else {
        println!("FAIL D12: the failed assignment left an invalid or changed value");
        std::process::exit(1);
    }
}
