//! D29 (C18): flex::FromIterator failing at item k > 0 left a sealed item followed by stale bytes: the target of a failed
//! assign_in_place no longer validated
use flatty::{prelude::*, AlignedBytes, FlexVec};
fn main() {
    let mut mem = AlignedBytes::new(6, 2);
    mem.copy_from_slice(&[0xff, 0xff, 7, 0, 1, 0]); // the one-item vector [7] with a stale byte pair behind it
    let r = {
        let v = FlexVec::<u16, u16>::from_mut_bytes(&mut mem).unwrap();
        v.assign_in_place(flatty::flex::FromIterator::new([5u16, 6])).map(|_| ())
    };
    let valid = FlexVec::<u16, u16>::validate(&mem);
    println!("assign 2 items into room for 1: {:?}; bytes after = {:?}; validate = {:?}", r, &mem[..], valid);
    if r.is_err() && valid.is_ok() {
        let v = FlexVec::<u16, u16>::from_bytes(&mem).unwrap();
        println!("PASS D29: the failed assignment left a valid vector: {:?} (size {})", v.iter().collect::<Vec<_>>(), v.size());
    } else {
        println!("FAIL D29: the failed assignment left bytes that do not validate");
        std::process::exit(1);
    }
}
