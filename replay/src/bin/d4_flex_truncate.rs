//! D4 (C12): FlexVec::truncate(n) kept n+1 items for 0 < n < len, pop() removed nothing for len >= 2, truncate(n >= len) panicked
use flatty::{prelude::*, AlignedBytes, FlexVec};
use std::panic::{catch_unwind, AssertUnwindSafe};
fn build(n: u8) -> AlignedBytes {
    let mut mem = AlignedBytes::new(32, 1);
    let v = FlexVec::<u8, u8>::default_in_place(&mut mem).unwrap();
    for i in 0..n { v.push(10 + i).unwrap(); }
    mem
}
fn items(v: &FlexVec<u8, u8>) -> Vec<u8> { v.iter().copied().collect() }
fn main() {
    std::panic::set_hook(Box::new(|_| {}));
    let mut bad = 0;
    for len in 0..5u8 {
        for n in 0..7usize {
            let mut mem = build(len);
            let r = catch_unwind(AssertUnwindSafe(|| {
                let v = FlexVec::<u8, u8>::from_mut_bytes(&mut mem).unwrap();
                v.truncate(n);
                (items(v), v.len())
            }));
            let want: Vec<u8> = (0..len).map(|i| 10 + i).take(n).collect();
            match r {
                Ok((got, l)) if got == want && l == want.len() && FlexVec::<u8, u8>::validate(&mem).is_ok() => {}
                Ok((got, _)) => { bad += 1; println!("FAIL D4: len {} truncate({}) -> {:?}, expected {:?}", len, n, got, want) }
                Err(_) => { bad += 1; println!("FAIL D4: len {} truncate({}) panicked", len, n) }
            }
        }
        let mut mem = build(len);
        let v = FlexVec::<u8, u8>::from_mut_bytes(&mut mem).unwrap();
        let r = v.pop();
        let want: Vec<u8> = (0..len.saturating_sub(1)).map(|i| 10 + i).collect();
        if items(v) != want || r.is_ok() != (len > 0) { bad += 1; println!("FAIL D4: len {} pop() -> {:?}, expected {:?}", len, items(v), want) }
    }
    if bad == 0 { println!("PASS D4: truncate/pop keep exactly the first min(n, len) items for len 0..5, n 0..7") } else { std::process::exit(1) }
}
