#!/bin/sh
# offline setup: nothing to download; warm the Verus and Kani caches so that the first check is not slow
set -e
cd "$(dirname "$0")"
mkdir -p .work evidence/replay
export CARGO_NET_OFFLINE=true
python3 tools/unit.py portable_ops >/dev/null 2>&1 || true
python3 - <<'PY' || true
import sys
sys.path.insert(0, 'tools')
import krun, subprocess, os
krun.prepare_crate('/verif', '/repo', '/verif/.work/kani-crate')
subprocess.run(['cargo', 'kani', '--only-codegen', '--target-dir', '/verif/.work/kani-target'], cwd='/verif/.work/kani-crate',
               env=dict(os.environ, CARGO_NET_OFFLINE='true'), capture_output=True)
PY
echo setup done
