//! C04 -- computed layout == compiler layout == C rule.  Loop-free harnesses: complete for the listed definitions
//! (slice length symbolic over the whole admissible range where no allocation is needed).
use crate::corpus::*;
use crate::reference::*;
use crate::util::*;
use core::mem::{align_of, align_of_val, size_of, size_of_val};
use flatty::portable::{be, le, Bool};
use flatty::prelude::*;
use flatty::{FlatString, FlatVec, FlexVec};

macro_rules! sized_consts {
    ($name:ident, $T:ty, $align:expr, $size:expr) => {
        #[kani::proof]
        fn $name() {
            assert!(<$T as FlatBase>::ALIGN == align_of::<$T>());
            assert!(<$T as FlatSized>::SIZE == size_of::<$T>());
            assert!(<$T as FlatBase>::MIN_SIZE == size_of::<$T>());
            // C rule applied to the declared field list (computed by hand from the declaration)
            assert!(align_of::<$T>() == $align);
            assert!(size_of::<$T>() == $size);
        }
    };
}
sized_consts!(c04_sstruct_consts, SStruct, 8, 24);
sized_consts!(c04_sbool_consts, SBool, 4, 12);
sized_consts!(c04_senum_consts, SEnum, 4, 8);
sized_consts!(c04_cenum_consts, CEnum, 1, 1);
sized_consts!(c04_pstruct_consts, PStruct, 1, 8);

/// field offsets of sized structs == C rule
#[kani::proof]
fn c04_sized_offsets() {
    let s = SStruct::default();
    let base = &s as *const _ as usize;
    assert!(&s.a as *const _ as usize - base == 0);
    assert!(&s.b as *const _ as usize - base == 2);
    assert!(&s.c as *const _ as usize - base == 4);
    assert!(&s.d as *const _ as usize - base == 8);
    let t = SBool::default();
    let base = &t as *const _ as usize;
    assert!(&t.x as *const _ as usize - base == 0);
    assert!(&t.flag as *const _ as usize - base == 2);
    assert!(&t.arr as *const _ as usize - base == 3);
    assert!(&t.y as *const _ as usize - base == 8);
}

/// containers: constants == C rule for (length, elements); mapped value never claims more than the slice -- ALL lengths
macro_rules! vec_layout {
    ($name:ident, $T:ty, $L:ty) => {
        #[kani::proof]
        fn $name() {
            type V = FlatVec<$T, $L>;
            let ea = align_of::<$T>();
            let es = size_of::<$T>();
            let la = align_of::<$L>();
            let ls = size_of::<$L>();
            let align = if ea > la { ea } else { la };
            assert!(<V as FlatBase>::ALIGN == align);
            let data_off = ceil_to(ls, ea);
            assert!(<V as FlatBase>::MIN_SIZE == data_off);
            let len: usize = kani::any();
            kani::assume(len >= data_off && len <= (isize::MAX as usize) / 2);
            let p = core::ptr::slice_from_raw_parts_mut(align as *mut u8, len);
            let q = unsafe { V::ptr_from_bytes(p) };
            let sz = unsafe { size_of_val_raw_(q) };
            assert!(sz <= len, "C04: mapped vector claims more bytes than the slice");
            assert!(unsafe { align_of_val_raw_(q) } == align);
            // capacity (slice metadata) = whole elements that fit in the floor-aligned tail
            let cap = (q as *const [u8]).len();
            assert!(cap == floor_to(len - data_off, align) / es);
        }
    };
}
unsafe fn size_of_val_raw_<T: ?Sized>(p: *const T) -> usize { core::mem::size_of_val_raw(p) }
unsafe fn align_of_val_raw_<T: ?Sized>(p: *const T) -> usize { core::mem::align_of_val_raw(p) }

vec_layout!(c04_vec_u8_u16, u8, u16);
vec_layout!(c04_vec_u64_u8, u64, u8);
vec_layout!(c04_vec_u16_u32, u16, u32);
vec_layout!(c04_vec_u32_leu16, u32, le::U16);
vec_layout!(c04_vec_arr3_u16, [u8; 3], u16);

#[kani::proof]
fn c04_string_flex_consts() {
    assert!(<FlatString<u16> as FlatBase>::ALIGN == 2 && <FlatString<u16> as FlatBase>::MIN_SIZE == 2);
    assert!(<FlatString<le::U32> as FlatBase>::ALIGN == 1 && <FlatString<le::U32> as FlatBase>::MIN_SIZE == 4);
    assert!(<FlexVec<u32, u16> as FlatBase>::ALIGN == 4 && <FlexVec<u32, u16> as FlatBase>::MIN_SIZE == 4);
    assert!(<FlexVec<u8, u16> as FlatBase>::ALIGN == 2 && <FlexVec<u8, u16> as FlatBase>::MIN_SIZE == 2);
    assert!(<FlexVec<FlatVec<u8, u8>, u8> as FlatBase>::ALIGN == 1);
    let len: usize = kani::any();
    kani::assume(len >= 4 && len <= (isize::MAX as usize) / 2);
    let p = core::ptr::slice_from_raw_parts_mut(4 as *mut u8, len);
    let q = unsafe { FlexVec::<u32, u16>::ptr_from_bytes(p) };
    assert!(unsafe { size_of_val_raw_(q) } <= len);
    assert!(unsafe { size_of_val_raw_(q) } == floor_to(len, 4));
    let q = unsafe { FlatString::<u16>::ptr_from_bytes(p) };
    assert!(unsafe { size_of_val_raw_(q) } <= len);
}

/// unsized enum: constants and "never claims more than the slice" for ALL lengths
#[kani::proof]
fn c04_uenum_layout() {
    assert!(<UEnum as FlatBase>::ALIGN == 4);
    // tag u8, payload at ceil(1, 4) = 4; smallest variant has no fields: MIN_SIZE = ceil(4 + 0, 4)
    assert!(<UEnum as FlatBase>::MIN_SIZE == 4);
    let len: usize = kani::any();
    kani::assume(len >= 4 && len <= (isize::MAX as usize) / 2);
    let p = core::ptr::slice_from_raw_parts_mut(4 as *mut u8, len);
    let q = unsafe { UEnum::ptr_from_bytes(p) };
    assert!(unsafe { size_of_val_raw_(q) } <= len, "C04: mapped enum claims more bytes than the slice");
    assert!(unsafe { align_of_val_raw_(q) } == 4);
}

/// unsized structs: constants (C rule) and "never claims more than the slice" (bounded by a real allocation:
/// Kani refuses pointer offsetting on unallocated memory)
#[kani::proof]
#[kani::unwind(2)]
fn c04_ustruct_layout() {
    assert!(<UStruct as FlatBase>::ALIGN == 2);
    // a@0, b@2, c@4 (FlatVec<u8,u16>: MIN_SIZE 2)
    assert!(<UStruct as FlatBase>::MIN_SIZE == 6);
    assert!(<UPad as FlatBase>::ALIGN == 8);
    // a@0 (u64), v@8 (MIN_SIZE 2): end 10, rounded up to the struct's alignment
    assert!(<UPad as FlatBase>::MIN_SIZE == 16);
    let len: usize = kani::any();
    kani::assume(len >= <UStruct as FlatBase>::MIN_SIZE && len <= 64);
    let buf = [0u64; 8];
    let p = core::ptr::slice_from_raw_parts_mut(buf.as_ptr() as *mut u8, len);
    let q = unsafe { UStruct::ptr_from_bytes(p) };
    assert!(unsafe { size_of_val_raw_(q) } <= len, "C04: mapped struct claims more bytes than the slice");
    let r = unsafe { &*q };
    assert!(&r.a as *const _ as usize - buf.as_ptr() as usize == 0);
    assert!(&r.b as *const _ as usize - buf.as_ptr() as usize == 2);
    assert!(&r.c as *const _ as *const u8 as usize - buf.as_ptr() as usize == 4);
}

#[kani::proof]
#[kani::unwind(2)]
fn c04_upad_layout() {
    let len: usize = kani::any();
    kani::assume(len >= <UPad as FlatBase>::MIN_SIZE && len <= 64);
    let buf = [0u64; 8];
    let p = core::ptr::slice_from_raw_parts_mut(buf.as_ptr() as *mut u8, len);
    let q = unsafe { UPad::ptr_from_bytes(p) };
    assert!(unsafe { size_of_val_raw_(q) } <= len, "C04: mapped struct claims more bytes than the slice");
}
