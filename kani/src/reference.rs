//! Reference (specification-side) helpers shared by the harnesses; derived from the README / property statements,
//! never from the implementation.

/// C rule: smallest multiple of `m` that is >= `x`
pub const fn ceil_to(x: usize, m: usize) -> usize {
    let r = x % m;
    if r == 0 { x } else { x + (m - r) }
}
/// largest multiple of `m` that is <= `x`
pub const fn floor_to(x: usize, m: usize) -> usize {
    x - x % m
}
