//! C05 / C06 / C17 -- size() is the exact extent, the framing contract, the portable image.
//!
//! C05 "size() is the exact extent: within the buffer; truncating to it loses nothing": For every valid value,
//!   size() equals the reference extent of its content (end of used data, rounded up to the type's alignment), never
//!   exceeds the number of bytes the value was mapped from, and is sufficient: mapping only the first size() bytes
//!   again succeeds and yields the same content and the same size().
//! C06 "Framing contract: message prefixes are 'incomplete', extensions are the same": Let m be the first size()
//!   bytes of any valid value.  Validating any proper prefix of m never reports a different valid message and never
//!   reports a content error: it is rejected as InsufficientSize, or, only when nothing but trailing padding is
//!   missing, accepted as the same content.  Validating m followed by arbitrary further bytes succeeds and yields the
//!   same content and the same size().
//! C17 "Portable composites have a platform-independent, padding-free image": Every type declared with
//!   #[flat(portable = true)], and every container of portable items with a portable length type, has alignment 1 and
//!   no padding anywhere, so its encoding is a pure function of its content: the concatenation, in declaration order,
//!   of tag, fields, length and elements in their fixed byte order.  It can be mapped at any address and its bytes
//!   equal the reference serialisation of the same content.
//!
//! Shape of every harness: a fully symbolic byte string of symbolic length <= N (BOUNDED, N stated per harness) that is
//! ASSUMED to validate stands for "any value reachable by any construction / mutation history"; the reference extents
//! are written by hand from the documented format (C layout rule; FlatVec<T,L>: length at 0, elements at
//! ceil(size_of L, align_of T); FlexVec<T,L>: chain of [offset slot][payload] items, slot width max(size_of L, align T)).
use crate::corpus::*;
use crate::reference::*;
use crate::util::*;
use core::mem::{align_of, size_of};
use flatty::error::ErrorKind;
use flatty::portable::{be, le, Bool};
use flatty::prelude::*;
use flatty::{flat, FlatString, FlatVec, FlexVec};

const fn max2(a: usize, b: usize) -> usize {
    if a > b { a } else { b }
}

// ------------------------------------------------------------------------------------------------------------------
// FlatVec<T, L>
// ------------------------------------------------------------------------------------------------------------------

/// C05 for FlatVec<T,L>.  reference: ALIGN = max(align L, align T); data at ceil(size_of L, align_of T);
/// extent = ceil(data + n * size_of T, ALIGN)
macro_rules! vec_c05 {
    ($name:ident, $T:ty, $L:ty, $n:expr, $unw:expr) => {
        #[kani::proof]
        #[kani::unwind($unw)]
        fn $name() {
            type V = FlatVec<$T, $L>;
            const N: usize = $n; // BOUNDED: buffer <= N bytes
            const A: usize = max2(align_of::<$T>(), align_of::<$L>());
            const ES: usize = size_of::<$T>();
            let data = ceil_to(size_of::<$L>(), align_of::<$T>());
            let (len, off) = any_len_off(N, A);
            kani::assume(off == 0);
            let b = sym_slice(len, A, off, N);
            let v = match V::from_bytes(b) { Ok(v) => v, Err(_) => return };
            let n = v.len();
            let s = v.size();
            assert!(s == ceil_to(data + n * ES, A), "C05: size() differs from the reference extent");
            assert!(s <= len, "C05: size() exceeds the mapped bytes");
            assert!(s % A == 0);
            if s > len { return; }
            let w = match V::from_bytes(&b[..s]) { Ok(w) => w, Err(_) => panic!("C05: the first size() bytes do not validate") };
            assert!(w.len() == n, "C05: truncated value has a different length");
            assert!(w.size() == s, "C05: truncated value has a different size()");
            let (vs, ws) = (v.as_slice(), w.as_slice());
            let mut i = 0;
            while i < N {
                if i < n { assert!(vs[i] == ws[i], "C05: truncated value has different elements"); }
                i += 1;
            }
        }
    };
}

/// C06 for FlatVec<T,L>: m = b[..s0] is a message (valid, size() == its length); every proper prefix is incomplete
/// (or the same content when only padding is cut); b = m ++ arbitrary suffix is the same message.
macro_rules! vec_c06 {
    ($name:ident, $T:ty, $L:ty, $n:expr, $unw:expr) => {
        #[kani::proof]
        #[kani::unwind($unw)]
        fn $name() {
            type V = FlatVec<$T, $L>;
            const N: usize = $n; // BOUNDED: message ++ suffix <= N bytes
            const A: usize = max2(align_of::<$T>(), align_of::<$L>());
            const ES: usize = size_of::<$T>();
            let data = ceil_to(size_of::<$L>(), align_of::<$T>());
            let (len, off) = any_len_off(N, A);
            kani::assume(off == 0);
            let b = sym_slice(len, A, off, N);
            let s0: usize = kani::any();
            kani::assume(s0 <= len);
            let m = match V::from_bytes(&b[..s0]) { Ok(m) => m, Err(_) => return };
            kani::assume(m.size() == s0);
            let n = m.len();
            let ms = m.as_slice();
            // proper prefix
            let k: usize = kani::any();
            kani::assume(k < s0);
            match V::from_bytes(&b[..k]) {
                Err(e) => assert!(e.kind == ErrorKind::InsufficientSize, "C06: a prefix is rejected with a content error"),
                Ok(p) => {
                    assert!(k >= data + n * ES, "C06: a prefix missing more than padding is accepted");
                    assert!(p.len() == n, "C06: a prefix is accepted as a different message");
                    let ps = p.as_slice();
                    let mut i = 0;
                    while i < N {
                        if i < n { assert!(ps[i] == ms[i], "C06: a prefix is accepted as a different message"); }
                        i += 1;
                    }
                }
            }
            // extension: b = m ++ (len - s0 arbitrary bytes)
            match V::from_bytes(b) {
                Err(_) => panic!("C06: message followed by further bytes is rejected"),
                Ok(x) => {
                    assert!(x.len() == n, "C06: extension changes the content");
                    assert!(x.size() == s0, "C06: extension changes size()");
                    let xs = x.as_slice();
                    let mut i = 0;
                    while i < N {
                        if i < n { assert!(xs[i] == ms[i], "C06: extension changes the content"); }
                        i += 1;
                    }
                }
            }
        }
    };
}

vec_c05!(c05_vec_u8_u16, u8, u16, 10, 12);
vec_c05!(c05_vec_u8_u32, u8, u32, 12, 14);
vec_c05!(c05_vec_u32_u8, u32, u8, 16, 18);
vec_c06!(c06_vec_u8_u16, u8, u16, 10, 12);
vec_c06!(c06_vec_u8_u32, u8, u32, 12, 14);
vec_c06!(c06_vec_u32_u8, u32, u8, 16, 18);
