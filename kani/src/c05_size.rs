//! C05 / C06 / C17 -- size() is the exact extent, the framing contract, the portable image.
//!
//! C05 "size() is the exact extent: within the buffer; truncating to it loses nothing": For every valid value,
//!   size() equals the reference extent of its content (end of used data, rounded up to the type's alignment), never
//!   exceeds the number of bytes the value was mapped from, and is sufficient: mapping only the first size() bytes
//!   again succeeds and yields the same content and the same size().
//! C06 "Framing contract: message prefixes are 'incomplete', extensions are the same": Let m be the first size()
//!   bytes of any valid value.  Validating any proper prefix of m never reports a different valid message and never
//!   reports a content error: it is rejected as InsufficientSize, or, only when nothing but trailing padding is
//!   missing, accepted as the same content.  Validating m followed by arbitrary further bytes succeeds and yields the
//!   same content and the same size().
//! C17 "Portable composites have a platform-independent, padding-free image": Every type declared with
//!   #[flat(portable = true)], and every container of portable items with a portable length type, has alignment 1 and
//!   no padding anywhere, so its encoding is a pure function of its content: the concatenation, in declaration order,
//!   of tag, fields, length and elements in their fixed byte order.  It can be mapped at any address and its bytes
//!   equal the reference serialisation of the same content.
//!
//! Shape of every harness: a fully symbolic byte string of symbolic length <= N (BOUNDED, N stated per harness) that is
//! ASSUMED to validate stands for "any value reachable by any construction / mutation history"; the reference extents
//! are written by hand from the documented format (C layout rule; FlatVec<T,L>: length at 0, elements at
//! ceil(size_of L, align_of T); FlexVec<T,L>: chain of [offset slot][payload] items, slot width max(size_of L, align T)).
use crate::corpus::*;
use crate::reference::*;
use crate::util::*;
use core::mem::{align_of, size_of};
use flatty::error::ErrorKind;
use flatty::portable::{be, le, Bool};
use flatty::prelude::*;
use flatty::{flat, FlatString, FlatVec, FlexVec};

use flatty::vec::Length;

const fn max2(a: usize, b: usize) -> usize {
    if a > b { a } else { b }
}

/// Fixed-capacity, 8-aligned, fully symbolic backing store; harness buffers are sub-slices of symbolic length (and,
/// for C17, symbolic start offset).  (util::sym_slice's exact-size heap object makes the re-mapping / element
/// comparison of these harnesses 10-20x slower in CBMC; out-of-slice accesses are the business of C01/C04, here
/// `size() <= len` is asserted explicitly.)
#[repr(C, align(8))]
struct Back<const W: usize>([u8; W]);

// ------------------------------------------------------------------------------------------------------------------
// specification side: per type, the reference alignment, the reference end of used data and content equality
// ------------------------------------------------------------------------------------------------------------------
trait Spec: Flat {
    /// reference alignment (C rule applied by hand to the declaration)
    const A: usize;
    /// reference END OF USED DATA (not rounded) of the content read through the accessors; `raw` are the bytes the
    /// value was mapped from (needed only for the FlexVec chain, whose item offsets are not visible through accessors;
    /// its walk examines at most bound + 1 links: a link is >= 1 byte)
    fn used_end(&self, raw: &[u8], bound: usize) -> usize;
    /// does `o` have the same content?  (loops are bounded by the constant `bound`)
    fn same(&self, o: &Self, bound: usize) -> bool;
}

macro_rules! sized_spec {
    ($T:ty, $align:expr, $size:expr) => {
        impl Spec for $T {
            const A: usize = $align;
            fn used_end(&self, _raw: &[u8], _bound: usize) -> usize { $size }
            fn same(&self, o: &Self, _bound: usize) -> bool { *self == *o }
        }
    };
}
sized_spec!(u8, 1, 1);
sized_spec!(u16, 2, 2);
sized_spec!(u32, 4, 4);
sized_spec!(Bool, 1, 1);
sized_spec!(le::U16, 1, 2);
sized_spec!(be::U16, 1, 2);
sized_spec!(be::U32, 1, 4);
// C rule: a u8 @0, b u16 @2, c u32 @4, d [u64;2] @8 -> 24, align 8
sized_spec!(SStruct, 8, 24);
// C rule: tag u8 @0, payload union (align 4 because of D(u32)) @4, 4 bytes -> 8, align 4
sized_spec!(SEnum, 4, 8);

/// FlatVec<T,L>: length at 0, elements at ceil(size_of L, align_of T)
impl<T: Flat + Sized + PartialEq, L: Flat + Length> Spec for FlatVec<T, L> {
    const A: usize = max2(align_of::<T>(), align_of::<L>());
    fn used_end(&self, _raw: &[u8], _bound: usize) -> usize {
        ceil_to(size_of::<L>(), align_of::<T>()) + self.len() * size_of::<T>()
    }
    fn same(&self, o: &Self, bound: usize) -> bool {
        let n = self.len();
        if o.len() != n { return false; }
        let (x, y) = (self.as_slice(), o.as_slice());
        let mut ok = true;
        let mut i = 0;
        while i < bound {
            if i < n && x[i] != y[i] { ok = false; }
            i += 1;
        }
        ok
    }
}

/// FlatString<L>: length at 0, UTF-8 bytes right behind it
impl<L: Flat + Length> Spec for FlatString<L> {
    const A: usize = align_of::<L>();
    fn used_end(&self, _raw: &[u8], _bound: usize) -> usize { size_of::<L>() + self.len() }
    fn same(&self, o: &Self, bound: usize) -> bool {
        let n = self.len();
        if o.len() != n { return false; }
        let (x, y) = (self.as_str().as_bytes(), o.as_str().as_bytes());
        if x.len() != n || y.len() != n { return false; }
        let mut ok = true;
        let mut i = 0;
        while i < bound {
            if i < n && x[i] != y[i] { ok = false; }
            i += 1;
        }
        ok
    }
}

/// FlexVec<T,L> (README / flex.rs diagram): chain of items [offset slot][payload]; slot width W = max(size_of L, align T);
/// slot value 0 = end of chain, L::MAX = last item, owns the rest; otherwise distance to the next slot.
/// End of used data: behind the zero slot's length field, or behind the used data of the open last item.
/// `$lw`: width of the length type (1: u8, 2: le::U16); `$item_end`: used end of the item mapped on a payload.
macro_rules! flex_spec {
    ($T:ty, $L:ty, $lw:expr, |$p:ident| $item_end:expr) => {
        impl Spec for FlexVec<$T, $L> {
            const A: usize = max2(<$T as Spec>::A, align_of::<$L>());
            fn used_end(&self, raw: &[u8], bound: usize) -> usize {
                let w = max2(size_of::<$L>(), <$T as Spec>::A);
                let maxv: usize = if $lw == 1 { 0xff } else { 0xffff };
                let mut pos = 0usize;
                let mut end: Option<usize> = None;
                let mut k = 0;
                while k < bound + 1 {
                    if end.is_none() {
                        let o = if $lw == 1 { raw[pos] as usize } else { u16::from_le_bytes([raw[pos], raw[pos + 1]]) as usize };
                        if o == 0 {
                            end = Some(pos + $lw);
                        } else if o == maxv {
                            let $p: &[u8] = &raw[pos + w..];
                            end = Some(pos + w + $item_end);
                        } else {
                            pos += o;
                        }
                    }
                    k += 1;
                }
                match end { Some(e) => e, None => panic!("C05: reference walk: chain longer than the bound") }
            }
            fn same(&self, o: &Self, bound: usize) -> bool {
                let mut it = self.iter();
                let mut jt = o.iter();
                let mut ok = true;
                let mut i = 0;
                while i < bound {
                    match (it.next(), jt.next()) {
                        (None, None) => {}
                        (Some(x), Some(y)) => { if !x.same(y, bound) { ok = false; } }
                        _ => { ok = false; }
                    }
                    i += 1;
                }
                ok
            }
        }
    };
}
flex_spec!(u8, u8, 1, |p| 1);
flex_spec!(u16, u8, 1, |p| 2);
flex_spec!(FlatVec<u8, u8>, u8, 1, |p| 1 + p[0] as usize);

/// UStruct (C rule): a u8 @0, b u16 @2, c FlatVec<u8,u16> @4 (length @4, elements @6); align 2
impl Spec for UStruct {
    const A: usize = 2;
    fn used_end(&self, _raw: &[u8], _bound: usize) -> usize { 6 + self.c.len() }
    fn same(&self, o: &Self, bound: usize) -> bool {
        self.a == o.a && self.b == o.b && self.c.same(&o.c, bound)
    }
}
/// UPad (C rule): a u64 @0, v FlatVec<u8,u16> @8 (length @8, elements @10); align 8 -> up to 7 bytes of trailing padding
impl Spec for UPad {
    const A: usize = 8;
    fn used_end(&self, _raw: &[u8], _bound: usize) -> usize { 10 + self.v.len() }
    fn same(&self, o: &Self, bound: usize) -> bool {
        self.a == o.a && self.v.same(&o.v, bound)
    }
}
/// UBoolVec: n u8 @0, flags FlatVec<Bool,u8> @1 (length @1, elements @2); align 1
impl Spec for UBoolVec {
    const A: usize = 1;
    fn used_end(&self, _raw: &[u8], _bound: usize) -> usize { 2 + self.flags.len() }
    fn same(&self, o: &Self, bound: usize) -> bool {
        self.n == o.n && self.flags.same(&o.flags, bound)
    }
}
/// UEnum: tag u8 @0, align 4 (u32 field), payload @4.  A: nothing.  B: u8 @4, u16 @6.  C: u32 @4, FlatVec<u8,u16> @8
/// (length @8, elements @10)
impl Spec for UEnum {
    const A: usize = 4;
    fn used_end(&self, _raw: &[u8], _bound: usize) -> usize {
        match self.as_ref() {
            UEnumRef::A => 1,
            UEnumRef::B(..) => 8,
            UEnumRef::C { bytes, .. } => 10 + bytes.len(),
        }
    }
    fn same(&self, o: &Self, bound: usize) -> bool {
        match (self.as_ref(), o.as_ref()) {
            (UEnumRef::A, UEnumRef::A) => true,
            (UEnumRef::B(x, y), UEnumRef::B(p, q)) => *x == *p && *y == *q,
            (UEnumRef::C { offset: x, bytes: y }, UEnumRef::C { offset: p, bytes: q }) => *x == *p && y.same(q, bound),
            _ => false,
        }
    }
}

// ------------------------------------------------------------------------------------------------------------------
// C05 / C06 bodies
// ------------------------------------------------------------------------------------------------------------------

/// C05 over ANY valid value of T mapped on ANY buffer of <= N bytes (BOUNDED by N)
fn c05_body<T: Spec + ?Sized, const N: usize>() {
    let back = Back::<N>(kani::any());
    let len: usize = kani::any();
    kani::assume(len <= N);
    let b: &[u8] = &back.0[..len];
    let v = match T::from_bytes(b) { Ok(v) => v, Err(_) => return };
    let s = v.size();
    assert!(s == ceil_to(v.used_end(b, N), T::A), "C05: size() differs from the reference extent");
    assert!(s <= len, "C05: size() exceeds the mapped bytes");
    if s > len { return; }
    let w = match T::from_bytes(&b[..s]) { Ok(w) => w, Err(_) => panic!("C05: the first size() bytes do not validate") };
    assert!(v.same(w, N), "C05: the truncated value has different content");
    assert!(w.size() == s, "C05: the truncated value has a different size()");
}

/// C06.  m = b[..s0] is a message: it validates and its reference extent is exactly its length (by C05 these are exactly
/// "the first size() bytes of a valid value"; the assumption does not use size()).
/// prefix: any k < s0;  extension: b itself is m ++ (len - s0) arbitrary bytes.   BOUNDED: len <= N.
fn c06_body<T: Spec + ?Sized, const N: usize>(prefix: bool, extension: bool) {
    let back = Back::<N>(kani::any());
    let len: usize = kani::any();
    kani::assume(len <= N);
    let b: &[u8] = &back.0[..len];
    let s0: usize = kani::any();
    kani::assume(s0 <= len);
    let m = match T::from_bytes(&b[..s0]) { Ok(m) => m, Err(_) => return };
    let end = m.used_end(&b[..s0], N);
    kani::assume(ceil_to(end, T::A) == s0);
    if prefix {
        let k: usize = kani::any();
        kani::assume(k < s0);
        match T::from_bytes(&b[..k]) {
            Err(e) => assert!(e.kind == ErrorKind::InsufficientSize, "C06: a prefix is rejected with a content error"),
            Ok(p) => {
                assert!(k >= end, "C06: a prefix that misses more than trailing padding is accepted");
                assert!(m.same(p, N), "C06: a prefix is accepted as a different message");
            }
        }
    }
    if extension {
        match T::from_bytes(b) {
            Err(_) => panic!("C06: a message followed by further bytes is rejected"),
            Ok(x) => {
                assert!(m.same(x, N), "C06: further bytes change the content");
                assert!(x.size() == s0, "C06: further bytes change size()");
            }
        }
    }
}

macro_rules! c05 {
    ($name:ident, $T:ty, $n:expr, $unw:expr) => {
        #[kani::proof]
        #[kani::unwind($unw)]
        fn $name() { c05_body::<$T, $n>() }
    };
}
macro_rules! c06 {
    ($name:ident, $T:ty, $n:expr, $unw:expr, $pre:expr, $ext:expr) => {
        #[kani::proof]
        #[kani::unwind($unw)]
        fn $name() { c06_body::<$T, $n>($pre, $ext) }
    };
}

c05!(c05_vec_u8_u16, FlatVec<u8, u16>, 10, 12);
c05!(c05_vec_u8_u32, FlatVec<u8, u32>, 12, 14);
c05!(c05_vec_u32_u8, FlatVec<u32, u8>, 12, 14);
c05!(c05_string_u16, FlatString<u16>, 6, 8);
c05!(c05_flex_u8_u8, FlexVec<u8, u8>, 6, 8);
c05!(c05_flex_u16_u8, FlexVec<u16, u8>, 6, 8);
c05!(c05_flex_vec_u8, FlexVec<FlatVec<u8, u8>, u8>, 4, 6);
c05!(c05_ustruct, UStruct, 12, 14);
c05!(c05_upad, UPad, 24, 26);
c05!(c05_uenum, UEnum, 16, 18);
c05!(c05_uboolvec, UBoolVec, 6, 8);
c05!(c05_sstruct, SStruct, 26, 28);
c05!(c05_senum, SEnum, 10, 12);

c06!(c06_vec_u8_u16, FlatVec<u8, u16>, 10, 12, true, true);
c06!(c06_vec_u8_u32, FlatVec<u8, u32>, 12, 14, true, true);
c06!(c06_vec_u32_u8, FlatVec<u32, u8>, 12, 14, true, true);
c06!(c06_string_u16, FlatString<u16>, 6, 8, true, true);
c06!(c06_flex_u8_u8_prefix, FlexVec<u8, u8>, 6, 8, true, false);
c06!(c06_flex_u8_u8_ext, FlexVec<u8, u8>, 6, 8, false, true);
c06!(c06_flex_u16_u8_prefix, FlexVec<u16, u8>, 6, 8, true, false);
c06!(c06_flex_u16_u8_ext, FlexVec<u16, u8>, 6, 8, false, true);
c06!(c06_flex_vec_u8_prefix, FlexVec<FlatVec<u8, u8>, u8>, 4, 6, true, false);
c06!(c06_flex_vec_u8_ext, FlexVec<FlatVec<u8, u8>, u8>, 4, 6, false, true);
c06!(c06_ustruct, UStruct, 12, 14, true, true);
c06!(c06_upad, UPad, 24, 26, true, true);
c06!(c06_uenum, UEnum, 16, 18, true, true);
c06!(c06_uboolvec, UBoolVec, 6, 8, true, true);
c06!(c06_sstruct, SStruct, 26, 28, true, true);
c06!(c06_senum, SEnum, 10, 12, true, true);

// ------------------------------------------------------------------------------------------------------------------
// C05 on a mutation-reached state: any valid UStruct, then one push / pop / truncate through the nested vector
// ------------------------------------------------------------------------------------------------------------------
#[kani::proof]
#[kani::unwind(12)]
fn c05_mut_ustruct() {
    const N: usize = 10; // BOUNDED: buffer <= N bytes
    let mut back = Back::<N>(kani::any());
    let len: usize = kani::any();
    kani::assume(len <= N);
    let b: &mut [u8] = &mut back.0[..len];
    let mut elems = [0u8; N];
    let (s, a, bb, n) = {
        let v = match UStruct::from_mut_bytes(b) { Ok(v) => v, Err(_) => return };
        let op: u8 = kani::any();
        if op == 0 { let _ = v.c.push(kani::any()); }
        else if op == 1 { let _ = v.c.pop(); }
        else { let t: usize = kani::any(); kani::assume(t <= N); v.c.truncate(t); }
        let n = v.c.len();
        let mut i = 0;
        while i < N {
            if i < n { elems[i] = v.c.as_slice()[i]; }
            i += 1;
        }
        (v.size(), v.a, v.b, n)
    };
    // a u8 @0, b u16 @2, c: length @4, elements @6; align 2
    assert!(s == ceil_to(6 + n, 2), "C05: size() differs from the reference extent after a mutation");
    assert!(s <= len, "C05: size() exceeds the mapped bytes after a mutation");
    if s > len { return; }
    let w = match UStruct::from_bytes(&b[..s]) { Ok(w) => w, Err(_) => panic!("C05: the first size() bytes do not validate after a mutation") };
    assert!(w.a == a && w.b == bb && w.c.len() == n, "C05: the truncated value has different content after a mutation");
    assert!(w.size() == s, "C05: the truncated value has a different size() after a mutation");
    let mut i = 0;
    while i < N {
        if i < n { assert!(w.c.as_slice()[i] == elems[i], "C05: the truncated value has different content after a mutation"); }
        i += 1;
    }
}

// ------------------------------------------------------------------------------------------------------------------
// C17: portable composites.  Buffers start at an ARBITRARY address (8-aligned backing store + symbolic offset 0..3).
// ------------------------------------------------------------------------------------------------------------------

/// reference serialiser: bytes are appended one after another, no gaps
struct Img<const M: usize> { b: [u8; M], p: usize }
impl<const M: usize> Img<M> {
    fn new() -> Self { Img { b: [0; M], p: 0 } }
    fn put(&mut self, x: u8) { if self.p < M { self.b[self.p] = x; } self.p += 1; }
    fn put2(&mut self, x: [u8; 2]) { self.put(x[0]); self.put(x[1]); }
    fn put4(&mut self, x: [u8; 4]) { self.put(x[0]); self.put(x[1]); self.put(x[2]); self.put(x[3]); }
    /// image == the first `s` bytes of `bytes`, and the image is exactly `s` bytes long (no padding anywhere)
    fn equals(&self, bytes: &[u8], s: usize) -> bool {
        if self.p != s || s > M || bytes.len() < s { return false; }
        let mut ok = true;
        let mut i = 0;
        while i < M {
            if i < s && bytes[i] != self.b[i] { ok = false; }
            i += 1;
        }
        ok
    }
}

/// PUStruct image: a (LE16), length of b (LE16), elements of b (BE16 each)
fn ser_pustruct<const M: usize>(img: &mut Img<M>, v: &PUStruct) {
    img.put2(u16::from(v.a).to_le_bytes());
    let n = v.b.len();
    img.put2((n as u16).to_le_bytes());
    let mut i = 0;
    while i < M {
        if i < n { img.put2(u16::from(v.b.as_slice()[i]).to_be_bytes()); }
        i += 1;
    }
}

macro_rules! c17_prologue {
    ($T:ty, $N:expr, $back:ident, $b:ident, $v:ident) => {
        assert!(<$T as FlatBase>::ALIGN == 1, "C17: a portable type has ALIGN != 1");
        let $back = Back::<{ $N + 4 }>(kani::any());
        let len: usize = kani::any();
        let off: usize = kani::any();
        kani::assume(len <= $N && off < 4);
        let $b: &[u8] = &$back.0[off..off + len];
        let r = <$T>::from_bytes($b);
        if let Err(e) = &r { assert!(e.kind != ErrorKind::BadAlign, "C17: a portable type cannot be mapped at some address"); }
        let $v = match r { Ok(v) => v, Err(_) => return };
        assert!(core::mem::align_of_val($v) == 1, "C17: a portable type has alignment != 1");
    };
}

#[kani::proof]
#[kani::unwind(12)]
fn c17_pstruct() {
    const N: usize = 10; // BOUNDED: buffer <= N bytes (the type is sized: 8 bytes)
    c17_prologue!(PStruct, N, back, b, v);
    let mut img = Img::<N>::new();
    img.put(v.a);
    img.put2(u16::from(v.b).to_le_bytes());
    img.put4(u32::from(v.c).to_be_bytes());
    img.put(if bool::from(v.f) { 1 } else { 0 });
    assert!(img.equals(v.as_bytes(), v.size()), "C17: image differs from the reference serialisation");
    assert!(img.equals(b, v.size()), "C17: image differs from the reference serialisation");
}

#[kani::proof]
#[kani::unwind(12)]
fn c17_pustruct() {
    const N: usize = 10; // BOUNDED: buffer <= N bytes (<= 3 elements)
    c17_prologue!(PUStruct, N, back, b, v);
    let mut img = Img::<N>::new();
    ser_pustruct(&mut img, v);
    assert!(img.equals(v.as_bytes(), v.size()), "C17: image differs from the reference serialisation");
}

#[kani::proof]
#[kani::unwind(12)]
fn c17_puenum() {
    const N: usize = 10; // BOUNDED: buffer <= N bytes
    c17_prologue!(PUEnum, N, back, b, v);
    let mut img = Img::<N>::new();
    match v.as_ref() {
        PUEnumRef::A => img.put(0),
        PUEnumRef::B(x, y) => { img.put(1); img.put2(u16::from(*x).to_be_bytes()); img.put(*y); }
        PUEnumRef::C(p) => { img.put(2); ser_pustruct(&mut img, p); }
    }
    assert!(img.equals(v.as_bytes(), v.size()), "C17: image differs from the reference serialisation");
}

#[kani::proof]
#[kani::unwind(12)]
fn c17_vec_le16_le16() {
    const N: usize = 10; // BOUNDED: buffer <= N bytes (<= 4 elements)
    c17_prologue!(FlatVec<le::U16, le::U16>, N, back, b, v);
    let mut img = Img::<N>::new();
    let n = v.len();
    img.put2((n as u16).to_le_bytes());
    let mut i = 0;
    while i < N {
        if i < n { img.put2(u16::from(v.as_slice()[i]).to_le_bytes()); }
        i += 1;
    }
    assert!(img.equals(v.as_bytes(), v.size()), "C17: image differs from the reference serialisation");
}

#[kani::proof]
#[kani::unwind(12)]
fn c17_vec_be32_u8() {
    const N: usize = 10; // BOUNDED: buffer <= N bytes (<= 2 elements)
    c17_prologue!(FlatVec<be::U32, u8>, N, back, b, v);
    let mut img = Img::<N>::new();
    let n = v.len();
    img.put(n as u8);
    let mut i = 0;
    while i < N {
        if i < n { img.put4(u32::from(v.as_slice()[i]).to_be_bytes()); }
        i += 1;
    }
    assert!(img.equals(v.as_bytes(), v.size()), "C17: image differs from the reference serialisation");
}

#[kani::proof]
#[kani::unwind(8)]
fn c17_string_le16() {
    const N: usize = 6; // BOUNDED: buffer <= N bytes (<= 4 bytes of UTF-8)
    c17_prologue!(FlatString<le::U16>, N, back, b, v);
    let mut img = Img::<N>::new();
    let n = v.len();
    img.put2((n as u16).to_le_bytes());
    let sb = v.as_str().as_bytes();
    let mut i = 0;
    while i < N {
        if i < n { img.put(sb[i]); }
        i += 1;
    }
    assert!(img.equals(v.as_bytes(), v.size()), "C17: image differs from the reference serialisation");
}

/// FlexVec<u8, le::U16>: restricted to the chains the API produces (every item but the last is followed directly by the
/// next slot: offset 3; the last item is open: 0xFFFF; empty: a zero slot).  Image: per item [offset LE16][item].
#[kani::proof]
#[kani::unwind(10)]
fn c17_flex_u8_le16() {
    const N: usize = 8; // BOUNDED: buffer <= N bytes (<= 2 items)
    c17_prologue!(FlexVec<u8, le::U16>, N, back, b, v);
    let cnt = v.len();
    let mut img = Img::<N>::new();
    let mut it = v.iter();
    let mut i = 0;
    while i < N {
        if let Some(x) = it.next() {
            if i + 1 < cnt { img.put2(3u16.to_le_bytes()); } else { img.put2(0xffffu16.to_le_bytes()); }
            img.put(*x);
        }
        i += 1;
    }
    if cnt == 0 { img.put2(0u16.to_le_bytes()); }
    // canonical chain only (what push / truncate produce)
    let mut canon = cnt == 0 || (b[3 * (cnt - 1)] == 0xff && b[3 * (cnt - 1) + 1] == 0xff);
    let mut j = 0;
    while j < N {
        if j + 1 < cnt && !(b[3 * j] == 3 && b[3 * j + 1] == 0) { canon = false; }
        j += 1;
    }
    kani::assume(canon);
    assert!(img.equals(v.as_bytes(), v.size()), "C17: image differs from the reference serialisation");
}

/// "enums with every tag width": a portable enum declared with a 16-bit tag
#[flat(sized = false, portable = true, default = true, tag_type = "u16")]
pub enum PUEnum16 {
    #[default]
    A,
    B(be::U16, u8),
}
fn is_portable<T: flatty::Portable + ?Sized>() {}

#[kani::proof]
fn c17_tag_u16() {
    is_portable::<PUEnum16>();
    assert!(<PUEnum16 as FlatBase>::ALIGN == 1, "C17: a portable enum with a 16-bit tag has ALIGN != 1");
}
