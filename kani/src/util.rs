//! harness helpers: exact-size heap buffers (so CBMC's pointer checks catch any access past the given slice),
//! symbolic contents, symbolic length and start misalignment.
use std::alloc::{alloc, Layout};

/// An `len`-byte slice at an address that is `off` bytes past an `align`-aligned address.  The allocation ends
/// exactly where the slice ends: reading or writing one byte past the slice is an out-of-bounds object access.
/// Contents are left uninitialised-symbolic via explicit writes of kani::any().
pub fn sym_slice<'a>(len: usize, align: usize, off: usize, max: usize) -> &'a mut [u8] {
    assert!(off < align && len <= max);
    let total = len + off;
    if total == 0 {
        // empty slice at an aligned dangling address
        return unsafe { core::slice::from_raw_parts_mut(align as *mut u8, 0) };
    }
    let layout = Layout::from_size_align(total, align).unwrap();
    let p = unsafe { alloc(layout) };
    #[cfg(kani)]
    kani::assume(!p.is_null());
    let s = unsafe { core::slice::from_raw_parts_mut(p.add(off), len) };
    let mut i = 0;
    while i < max {
        if i < len {
            #[cfg(kani)]
            {
                s[i] = kani::any();
            }
        }
        i += 1;
    }
    s
}

/// symbolic (len, off) with len <= max, off < align
#[cfg(kani)]
pub fn any_len_off(max: usize, align: usize) -> (usize, usize) {
    let len: usize = kani::any();
    let off: usize = kani::any();
    kani::assume(len <= max);
    kani::assume(off < align);
    (len, off)
}

pub fn rd_u16(b: &[u8], at: usize) -> u16 {
    u16::from_ne_bytes([b[at], b[at + 1]])
}
pub fn rd_u32(b: &[u8], at: usize) -> u32 {
    u32::from_ne_bytes([b[at], b[at + 1], b[at + 2], b[at + 3]])
}
