//! C12 / C13 / C14 -- FlexVec under short operation HISTORIES (scripted-history harnesses).
//! The one-step-from-any-valid-state harnesses of c12_flex.rs are exact but cost 8-15 GB and ~10 min each (they are in the
//! thorough tier).  These harnesses start from default_in_place on a buffer of concrete length and run K steps, each a
//! symbolic choice among push(any value) / pop / truncate(any n) / clear, checking the observable state against a Vec model
//! after EVERY step.  BOUNDED: buffer length and K are stated per harness; values, operation choices and arguments are symbolic.
use crate::util::*;
use flatty::error::ErrorKind;
use flatty::prelude::*;
use flatty::{flat_vec, FlatVec, FlexVec};

const CAP: usize = 6;

/// Vec<u8> model with a fixed backing array
#[derive(Clone, Copy)]
struct Model { n: usize, v: [u8; CAP] }
impl Model {
    fn push(&mut self, x: u8) { self.v[self.n] = x; self.n += 1; }
    fn truncate(&mut self, k: usize) { if k < self.n { self.n = k; } }
}

/// observable state of the real vector == model; bytes validate and re-map to the same sequence
fn check_u8<L: flatty::Flat + flatty::vec::Length>(v: &FlexVec<u8, L>, m: &Model, bytes_len: usize) {
    assert!(v.len() == m.n, "C12: len() differs from the abstract sequence");
    assert!(v.is_empty() == (m.n == 0), "C12: is_empty() differs from the abstract sequence");
    let mut i = 0;
    for x in v.iter() {
        assert!(i < m.n, "C12: iter() yields more items than the abstract sequence");
        assert!(*x == m.v[i], "C12: item content or order differs from the abstract sequence");
        i += 1;
        if i >= CAP { break; }
    }
    assert!(i == m.n, "C12: iter() yields fewer items than the abstract sequence");
    let s = v.size();
    assert!(s <= bytes_len, "C05: size() exceeds the mapped bytes");
    let b = v.as_bytes();
    assert!(FlexVec::<u8, L>::validate(b).is_ok(), "C12: the bytes do not validate after the step");
}

macro_rules! hist_u8 {
    ($name:ident, $L:ty, $buflen:expr, $pre:expr, $op:expr, $k:expr, $unwind:expr) => {
        #[kani::proof]
        #[kani::unwind($unwind)]
        fn $name() {
            // BOUNDED: buffer of $buflen bytes; history = $pre pushes, then ONE operation ($op: 0 pop, 1 truncate($k), 2 clear),
            // then a push; all values symbolic
            let mut buf = [0u8; $buflen];
            let mut j = 0;
            while j < $buflen { buf[j] = kani::any(); j += 1; }   // arbitrary prior contents (C20: default ignores them)
            let v = FlexVec::<u8, $L>::default_in_place(&mut buf).unwrap();
            let mut m = Model { n: 0, v: [0; CAP] };
            let mut p = 0;
            while p < $pre {
                let x: u8 = kani::any();
                assert!(v.push(x).is_ok(), "C12: a push that fits was refused");
                m.push(x);
                p += 1;
            }
            check_u8(v, &m, $buflen);
            if $op == 0 {
                let r = v.pop();
                assert!(r.is_ok() == (m.n > 0), "C12: pop result differs from the abstract sequence");
                if m.n > 0 { m.n -= 1; }
            } else if $op == 1 {
                v.truncate($k);
                m.truncate($k);
            } else {
                v.clear();
                m.n = 0;
            }
            check_u8(v, &m, $buflen);
            // the vector keeps working after the step: one more push
            let y: u8 = kani::any();
            let size_before = v.size();
            match v.push(y) {
                Ok(r) => { assert!(*r == y, "C12: push returns a reference to a different item"); m.push(y); }
                Err(e) => {
                    assert!(e.kind == ErrorKind::InsufficientSize, "C13: a refused push must report InsufficientSize");
                    assert!(v.size() == size_before, "C13: size() changed by a refused push");
                }
            }
            check_u8(v, &m, $buflen);
        }
    };
}
hist_u8!(c12_hist_u8_u8_pre2_pop, u8, 7, 2, 0, 0, 10);
hist_u8!(c12_hist_u8_u8_pre3_pop, u8, 7, 3, 0, 0, 10);
hist_u8!(c12_hist_u8_u8_pre0_pop, u8, 3, 0, 0, 0, 8);
hist_u8!(c12_hist_u8_u8_pre3_trunc1, u8, 7, 3, 1, 1, 10);
hist_u8!(c12_hist_u8_u8_pre3_trunc2, u8, 7, 3, 1, 2, 10);
hist_u8!(c12_hist_u8_u8_pre2_trunc2, u8, 7, 2, 1, 2, 10);
hist_u8!(c12_hist_u8_u8_pre2_trunc5, u8, 7, 2, 1, 5, 10);
hist_u8!(c12_hist_u8_u8_pre0_trunc1, u8, 3, 0, 1, 1, 8);
hist_u8!(c12_hist_u8_u8_pre2_clear, u8, 7, 2, 2, 0, 10);
hist_u8!(c12_hist_u8_u16_pre2_trunc1, u16, 8, 2, 1, 1, 10);
hist_u8!(c12_hist_u8_u16_pre2_pop, u16, 8, 2, 0, 0, 10);

/// refused pushes at every fill level of small buffers (C13): fill with pushes until one is refused, then the state is
/// exactly the one before, and a later pop / push behaves as if the refused call had not happened
macro_rules! refuse_u8 {
    ($name:ident, $L:ty, $buflen:expr, $unwind:expr) => {
        #[kani::proof]
        #[kani::unwind($unwind)]
        fn $name() {
            // BOUNDED: buffer of $buflen bytes
            let mut buf = [0u8; $buflen];
            let mut j = 0;
            while j < $buflen { buf[j] = kani::any(); j += 1; }
            let v = FlexVec::<u8, $L>::default_in_place(&mut buf).unwrap();
            let mut m = Model { n: 0, v: [0; CAP] };
            let mut k = 0;
            let mut refused = false;
            while k < CAP {
                if !refused {
                    let x: u8 = kani::any();
                    let size_before = v.size();
                    match v.push(x) {
                        Ok(_) => { m.push(x); }
                        Err(_) => {
                            refused = true;
                            assert!(v.size() == size_before, "C13: size() changed by a refused push");
                            check_u8(v, &m, $buflen); // C13: len, items, validity unchanged
                        }
                    }
                }
                k += 1;
            }
            assert!(refused, "C12: a bounded buffer accepted more items than it can hold");
            // later operations behave as if the refused call had never happened
            let r = v.pop();
            assert!(r.is_ok() == (m.n > 0), "C13: pop after a refused push differs from the abstract sequence");
            if m.n > 0 { m.n -= 1; }
            check_u8(v, &m, $buflen);
            let y: u8 = kani::any();
            if v.push(y).is_ok() { m.push(y); }
            check_u8(v, &m, $buflen);
        }
    };
}
refuse_u8!(c13_flex_u8_u8_refuse_5b, u8, 5, 9);
refuse_u8!(c13_flex_u8_u8_refuse_4b, u8, 4, 9);
refuse_u8!(c13_flex_u8_u16_refuse_7b, u16, 7, 9);

/// unsized items: FlexVec<FlatVec<u8,u8>,u8>.  History: push_default, edit item 0, push a vector that may not fit
/// (nested emplacer error), pop; item edits never change another item (C12), refused push changes nothing (C13)
#[kani::proof]
#[kani::unwind(12)]
fn c12_hist_vec_items_9b() {
    // BOUNDED: buffer of 9 bytes, fixed script with symbolic values
    let mut buf = [0u8; 9];
    let mut j = 0;
    while j < 9 { buf[j] = kani::any(); j += 1; }
    let v = FlexVec::<FlatVec<u8, u8>, u8>::default_in_place(&mut buf).unwrap();
    assert!(v.len() == 0, "C20: default FlexVec is not empty");
    let a: u8 = kani::any();
    let b: u8 = kani::any();
    // item 0 = [a]
    {
        let it = v.push_default().unwrap();
        it.push(a).unwrap();
    }
    assert!(v.len() == 1, "C12: len() differs from the abstract sequence");
    // item 1 = [b, b]   (slot 1 + len 1 + 2 bytes; item 0 sealed at slot 1 + len 1 + 1 byte = 3)
    let r1 = v.push(flat_vec![b, b]).map(|_| ());
    assert!(r1.is_ok(), "C12: a push that fits was refused");
    assert!(v.len() == 2, "C12: len() differs from the abstract sequence");
    // a push whose nested emplacer fails: 3 more elements do not fit into the 2 remaining bytes
    let size_before = v.size();
    let r2 = v.push(flat_vec![1u8, 2, 3]).map(|_| ());
    assert!(r2.is_err(), "C13: a push that cannot fit was accepted");
    assert!(v.len() == 2 && v.size() == size_before, "C13: a refused push changed len() or size()");
    {
        let mut it = v.iter();
        let i0 = it.next().unwrap();
        assert!(i0.len() == 1 && i0.as_slice()[0] == a, "C13: a refused push changed item 0");
        let i1 = it.next().unwrap();
        assert!(i1.len() == 2 && i1.as_slice()[0] == b && i1.as_slice()[1] == b, "C13: a refused push changed item 1");
        assert!(it.next().is_none(), "C13: a refused push changed the item count");
    }
    assert!(FlexVec::<FlatVec<u8, u8>, u8>::validate(v.as_bytes()).is_ok(), "C13: the bytes do not validate after a refused push");
    // edit item 1 in place: item 0 unchanged (C12 "editing one item never changes another")
    {
        let mut it = v.iter_mut();
        let _ = it.next().unwrap();
        let i1 = it.next().unwrap();
        let _ = i1.pop();
    }
    {
        let mut it = v.iter();
        let i0 = it.next().unwrap();
        assert!(i0.len() == 1 && i0.as_slice()[0] == a, "C12: editing item 1 changed item 0");
        let i1 = it.next().unwrap();
        assert!(i1.len() == 1 && i1.as_slice()[0] == b, "C12: item 1 after the edit differs from the abstract sequence");
    }
    // pop removes exactly the last item
    assert!(v.pop().is_ok(), "C12: pop result differs from the abstract sequence");
    assert!(v.len() == 1 && v.iter().next().unwrap().as_slice()[0] == a, "C12: pop removed something else than the last item");
    assert!(FlexVec::<FlatVec<u8, u8>, u8>::validate(v.as_bytes()).is_ok(), "C12: the bytes do not validate after pop");
}

/// offset-type boundary (C12 / C13): an item whose extent is exactly L::MAX (= the "last item" marker) cannot be sealed.
/// FlexVec<[u8; N], u8> (item alignment 1, so the extent is 1 slot byte + N): after one item, another push either succeeds
/// and the vector has two items, or it is refused and the vector is unchanged.
macro_rules! lmax_boundary {
    ($name:ident, $n:expr) => {
        #[kani::proof]
        #[kani::unwind(258)]
        fn $name() {
            // BOUNDED: one history per instantiation (boundary value of the offset type); item contents symbolic
            let mut buf = [0u8; 2 * ($n + 1) + 3];
            let x: u8 = kani::any();
            let y: u8 = kani::any();
            let v = FlexVec::<[u8; $n], u8>::default_in_place(&mut buf).unwrap();
            assert!(v.push([x; $n]).is_ok(), "C12: a push that fits was refused");
            assert!(v.len() == 1, "C12: len() differs from the abstract sequence");
            let r = v.push([y; $n]).map(|_| ());
            let mut it = v.iter();
            let first = it.next().unwrap();
            assert!(first[0] == x && first[$n - 1] == x, "C12,C13: the first item changed");
            match r {
                Ok(()) => {
                    let second = it.next();
                    assert!(second.is_some(), "C12: push returned Ok but the new item is not part of the sequence");
                    let s = second.unwrap();
                    assert!(s[0] == y && s[$n - 1] == y, "C12: the pushed item differs from what was pushed");
                    assert!(it.next().is_none(), "C12: iter() yields more items than the abstract sequence");
                }
                Err(_) => { assert!(it.next().is_none(), "C13: a refused push changed the item count"); }
            }
        }
    };
}
lmax_boundary!(c12_lmax_boundary_u8_254, 254);
lmax_boundary!(c12_lmax_boundary_u8_253, 253);

// refused FIRST push on an empty vector (the slot fits, the item does not): the zero terminator must survive (C13)
refuse_u8!(c13_flex_u8_u8_refuse_1b, u8, 1, 9);
refuse_u8!(c13_flex_u8_u8_refuse_2b, u8, 2, 9);

/// empty FlexVec of unsized items, first push with a nested emplacer that cannot fit, then a push that fits
#[kani::proof]
#[kani::unwind(8)]
fn c13_flex_vec_items_refused_first_push() {
    // BOUNDED: buffer of 4 bytes, fixed script with symbolic values
    let mut buf = [0u8; 4];
    let mut j = 0;
    while j < 4 { buf[j] = kani::any(); j += 1; }
    let v = FlexVec::<FlatVec<u8, u8>, u8>::default_in_place(&mut buf).unwrap();
    let size_before = v.size();
    let r = v.push(flat_vec![1u8, 2, 3]).map(|_| ());
    assert!(r.is_err(), "C13: a push that cannot fit was accepted");
    assert!(v.len() == 0 && v.is_empty() && v.iter().next().is_none(), "C13: a refused first push left a ghost item");
    assert!(v.size() == size_before, "C13: size() changed by a refused push");
    assert!(FlexVec::<FlatVec<u8, u8>, u8>::validate(v.as_bytes()).is_ok(), "C13: the bytes do not validate after a refused push");
    // later operations behave as if the refused call had never happened
    let a: u8 = kani::any();
    assert!(v.push(flat_vec![a]).is_ok(), "C13: a push that fits was refused after an earlier refused push");
    assert!(v.len() == 1 && v.iter().next().unwrap().as_slice()[0] == a, "C13: push after a refused push differs from the abstract sequence");
}

// (scripted histories for FlexVec<u16, u8> were tried and dropped: with 2-aligned items every step costs CBMC > 15 min)

// ---- the offset-type boundary with a TINY user-defined offset type (L::MAX = 7): the generic FlexVec code is the same for every
// `L: Flat + Length`, and with a 3-bit range the case "item extent == L::MAX (the last-item marker)" is a 16-byte problem
// instead of a 255-byte one (which CBMC does not finish, see the c12_lmax_boundary_* harnesses in the thorough tier)
pub mod tiny {
    use core::ops::*;
    use flatty::error::Error;
    use flatty::traits::{Flat, FlatValidate};
    use num_traits::{Bounded, FromPrimitive, Num, One, ToPrimitive, Unsigned, Zero};

    #[repr(transparent)]
    #[derive(Clone, Copy, PartialEq, Eq, PartialOrd, Ord, Debug)]
    pub struct Tiny(pub u8);
    pub const TMAX: u8 = 7;
    unsafe impl FlatValidate for Tiny {
        unsafe fn validate_unchecked(_: &[u8]) -> Result<(), Error> { Ok(()) }
    }
    unsafe impl Flat for Tiny {}
    macro_rules! op { ($Tr:ident, $f:ident, $TrA:ident, $fa:ident, $e:expr) => {
        impl $Tr for Tiny { type Output = Tiny; fn $f(self, r: Tiny) -> Tiny { let f: fn(u8, u8) -> u8 = $e; Tiny(f(self.0, r.0)) } }
        impl $TrA for Tiny { fn $fa(&mut self, r: Tiny) { let f: fn(u8, u8) -> u8 = $e; self.0 = f(self.0, r.0); } }
    }; }
    op!(Add, add, AddAssign, add_assign, |a, b| a.wrapping_add(b));
    op!(Sub, sub, SubAssign, sub_assign, |a, b| a.wrapping_sub(b));
    op!(Mul, mul, MulAssign, mul_assign, |a, b| a.wrapping_mul(b));
    op!(Div, div, DivAssign, div_assign, |a, b| a / b);
    op!(Rem, rem, RemAssign, rem_assign, |a, b| a % b);
    impl Zero for Tiny { fn zero() -> Self { Tiny(0) } fn is_zero(&self) -> bool { self.0 == 0 } }
    impl One for Tiny { fn one() -> Self { Tiny(1) } }
    impl Num for Tiny { type FromStrRadixErr = (); fn from_str_radix(_: &str, _: u32) -> Result<Self, ()> { Err(()) } }
    impl Unsigned for Tiny {}
    impl Bounded for Tiny { fn min_value() -> Self { Tiny(0) } fn max_value() -> Self { Tiny(TMAX) } }
    impl ToPrimitive for Tiny { fn to_i64(&self) -> Option<i64> { Some(self.0 as i64) } fn to_u64(&self) -> Option<u64> { Some(self.0 as u64) } }
    impl FromPrimitive for Tiny {
        fn from_i64(n: i64) -> Option<Self> { if n >= 0 && n <= TMAX as i64 { Some(Tiny(n as u8)) } else { None } }
        fn from_u64(n: u64) -> Option<Self> { if n <= TMAX as u64 { Some(Tiny(n as u8)) } else { None } }
    }
}

/// C12 / C13: an item whose extent equals L::MAX cannot be sealed with its real offset (that value is the "last item"
/// marker): the next push must be refused and change nothing -- or, for a smaller item, succeed and yield two items
macro_rules! tiny_boundary {
    ($name:ident, $n:expr) => {
        #[kani::proof]
        #[kani::unwind(20)]
        fn $name() {
            // BOUNDED: one history per instantiation, 20-byte buffer, item contents symbolic
            let mut buf: [u8; 20] = kani::any();
            let x: u8 = kani::any();
            let y: u8 = kani::any();
            let v = FlexVec::<[u8; $n], tiny::Tiny>::default_in_place(&mut buf).unwrap();
            assert!(v.push([x; $n]).is_ok(), "C12: a push that fits was refused");
            assert!(v.len() == 1, "C12: len() differs from the abstract sequence");
            let r = v.push([y; $n]).map(|_| ());
            let mut it = v.iter();
            let first = it.next().unwrap();
            assert!(first[0] == x && first[$n - 1] == x, "C12,C13: the first item changed");
            match r {
                Ok(()) => {
                    let second = it.next();
                    assert!(second.is_some(), "C12: push returned Ok but the new item is not part of the sequence");
                    let s = second.unwrap();
                    assert!(s[0] == y && s[$n - 1] == y, "C12: the pushed item differs from what was pushed");
                    assert!(it.next().is_none(), "C12: iter() yields more items than the abstract sequence");
                    assert!(v.len() == 2, "C12: len() differs from the abstract sequence");
                }
                Err(_) => {
                    assert!(it.next().is_none(), "C13: a refused push changed the item count");
                    assert!(v.len() == 1, "C13: a refused push changed len()");
                }
            }
            assert!(FlexVec::<[u8; $n], tiny::Tiny>::validate(v.as_bytes()).is_ok(), "C12: the bytes do not validate after the step");
        }
    };
}
tiny_boundary!(c12_tiny_offset_extent_eq_max, 6);
tiny_boundary!(c12_tiny_offset_extent_below_max, 5);

/// C18 / C03: flex::FromIterator with an item whose extent equals L::MAX: refused, and what is left is a valid vector
#[kani::proof]
#[kani::unwind(20)]
fn c18_tiny_offset_from_iterator() {
    // BOUNDED: 20-byte buffer; current value: one 6-byte item; replacement: two 6-byte items (the first cannot be sealed)
    let mut buf: [u8; 20] = kani::any();
    let x: u8 = kani::any();
    let v = FlexVec::<[u8; 6], tiny::Tiny>::default_in_place(&mut buf).unwrap();
    assert!(v.push([x; 6]).is_ok(), "C12: a push that fits was refused");
    let r = v.assign_in_place(flatty::flex::FromIterator::new([[1u8; 6], [2u8; 6]])).map(|_| ());
    assert!(r.is_err(), "C18: an item extent equal to L::MAX was sealed");
    assert!(FlexVec::<[u8; 6], tiny::Tiny>::validate(v.as_bytes()).is_ok(), "C18: target bytes no longer validate after a failed assignment");
    let _ = v.size();
    let mut n = 0;
    for it in v.iter() { let _ = it[0]; n += 1; if n > 3 { break; } }
    assert!(n <= 2, "C18: the left-over vector has more items than were ever written");
}

/// C18: the same boundary with unsized items, where the OLD chain has a sealed first item: a FromIterator that fails after it
/// wrote the oversized item's payload must still leave a terminated, valid chain (the old offset slot must not be left
/// pointing into the fresh payload)
#[kani::proof]
#[kani::unwind(20)]
fn c18_tiny_offset_from_iterator_over_sealed_chain() {
    // BOUNDED: 16-byte buffer; current value [[a, a], [b]]; replacement: one 5-element item (extent 7 == L::MAX), symbolic elements
    let mut buf: [u8; 16] = kani::any();
    let (a, b): (u8, u8) = (kani::any(), kani::any());
    let e: [u8; 5] = kani::any();
    let v = FlexVec::<FlatVec<u8, u8>, tiny::Tiny>::default_in_place(&mut buf).unwrap();
    assert!(v.push(flat_vec![a, a]).is_ok() && v.push(flat_vec![b]).is_ok(), "C12: a push that fits was refused");
    assert!(v.len() == 2, "C12: len() differs from the abstract sequence");
    let r = v.assign_in_place(flatty::flex::FromIterator::new([flatty::vec::FromArray(e)])).map(|_| ());
    assert!(r.is_err(), "C18: an item extent equal to L::MAX was sealed");
    assert!(FlexVec::<FlatVec<u8, u8>, tiny::Tiny>::validate(v.as_bytes()).is_ok(), "C18: target bytes no longer validate after a failed assignment");
    let _ = v.size();
    let mut n = 0;
    for it in v.iter() { assert!(it.len() <= it.capacity(), "C18: invalid item left behind"); n += 1; if n > 4 { break; } }
}
