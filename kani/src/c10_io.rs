//! C07 / C09 / C10 -- BOUNDED cross-check of the blocking Receiver / Sender on the compiled crates (the proofs are the Verus
//! units io_blocking / io_async; these harnesses execute the real code, including the real message validator, against a
//! scripted in-memory pipe with symbolic chunk sizes).
use flatty::prelude::*;
use flatty::FlatVec;
use flatty_io::{IoReceiver, IoSender, RecvError};
use std::io::{self, Read, Write};

/// source: a fixed byte string handed out in chunks whose sizes are chosen symbolically per call (>= 1 while data remains)
struct Src<const N: usize> { data: [u8; N], len: usize, pos: usize, calls: usize }
impl<const N: usize> Read for Src<N> {
    fn read(&mut self, buf: &mut [u8]) -> io::Result<usize> {
        self.calls += 1;
        let left = self.len - self.pos;
        let want: usize = kani::any();
        kani::assume(want <= left && want <= buf.len() && (want > 0 || left == 0 || buf.is_empty()));
        let mut i = 0;
        while i < N { if i < want { buf[i] = self.data[self.pos + i]; } i += 1; }
        self.pos += want;
        Ok(want)
    }
}

type Msg = FlatVec<u8, u8>;

/// C10: whatever bytes arrive in whatever chunks, recv terminates with a message / parse error / read error / Closed, never
/// panics; a message it hands out lies inside the bytes received so far and is valid; dropping the guard is safe
macro_rules! recv_arbitrary {
    ($name:ident, $n:expr, $calls:expr, $unwind:expr) => {
#[kani::proof]
#[kani::unwind($unwind)]
fn $name() {
    const N: usize = $n; // BOUNDED: stream <= N bytes, at most $calls recv calls, max_msg_len 3 (buffer 6)
    let data: [u8; N] = kani::any();
    let len: usize = kani::any();
    kani::assume(len <= N);
    let src = Src::<N> { data, len, pos: 0, calls: 0 };
    let mut rx = IoReceiver::<Msg, _>::io(src, 3);
    let mut consumed = 0usize; // bytes of the stream consumed by dropped guards
    let mut k = 0;
    while k < $calls {
        match rx.recv() {
            Ok(g) => {
                let n = g.len();
                // the message is exactly the next frame of the stream: [n, payload...]
                assert!(consumed + 1 + n <= len, "C10: a message extends past the bytes that were sent");
                assert!(data[consumed] as usize == n, "C10,C07: message length differs from the stream");
                let mut i = 0;
                while i < N { if i < n { assert!(g.as_slice()[i] == data[consumed + 1 + i], "C07,C10: message content differs from the stream"); } i += 1; }
                consumed += 1 + n;
                drop(g);
            }
            Err(RecvError::Closed) => {
                assert!(consumed <= len, "C10: Closed after consuming more than was sent");
                // C07 completeness: the stream may end inside a frame, but not with a complete frame still undelivered
                // (capacity of the 3-byte receive buffer: 2 items)
                let pending = consumed < len && (data[consumed] as usize) <= 2 && consumed + 1 + (data[consumed] as usize) <= len;
                assert!(!pending, "C07: Closed although a complete message that was sent has not been delivered");
                break;
            }
            Err(RecvError::Parse(_)) => { break; }
            Err(RecvError::Read(_)) => { break; }
        }
        k += 1;
    }
}
    };
}
recv_arbitrary!(c10_recv_arbitrary_bytes_5x3, 5, 3, 8);
recv_arbitrary!(c10_recv_arbitrary_bytes_3x2, 3, 2, 6);

/// sink: records what it accepts; every write call has a symbolic outcome: accept 1..=n bytes, accept 0, or fail
struct SinkState<const N: usize> { got: [u8; N], len: usize, calls: usize }
/// (the sender owns its pipe and does not expose it: the sink writes through a pointer to a state the harness keeps)
struct Sink<const N: usize>(*mut SinkState<N>);
impl<const N: usize> Write for Sink<N> {
    fn write(&mut self, buf: &[u8]) -> io::Result<usize> {
        let st = unsafe { &mut *self.0 };
        st.calls += 1;
        let outcome: u8 = kani::any();
        if outcome == 0 { return Err(io::ErrorKind::Other.into()); }
        if outcome == 1 { return Ok(0); }
        let n: usize = kani::any();
        kani::assume(n >= 1 && n <= buf.len() && st.len + n <= N);
        let mut i = 0;
        while i < N { if i < n { st.got[st.len + i] = buf[i]; } i += 1; }
        st.len += n;
        Ok(n)
    }
    fn flush(&mut self) -> io::Result<()> { Ok(()) }
}

/// C09 (blocking): for every script of sink outcomes, send returns after a bounded number of pipe calls; the sink holds whole
/// messages followed by at most one partial message; after a failure before the first byte the sender can be used again
#[kani::proof]
#[kani::unwind(10)]
fn c09_send_fault_scripts() {
    // BOUNDED: two 3-byte messages (FlatVec<u8,u8> with 2 items), every sink script
    let (a, b, c, d): (u8, u8, u8, u8) = (kani::any(), kani::any(), kani::any(), kani::any());
    let mut state = SinkState::<8> { got: [0; 8], len: 0, calls: 0 };
    let sp: *mut SinkState<8> = &mut state;
    let mut tx = IoSender::<Msg, _>::io(Sink::<8>(sp), 3);
    let r1 = tx.alloc().unwrap().new_in_place(flatty::flat_vec![a, b]).unwrap().send();
    // whatever happened, the sink holds a prefix of message 1
    let expect = [2u8, a, b, 2u8, c, d];
    let l1 = (unsafe { &*sp }).len;
    assert!(l1 <= 3, "C09: more bytes than the message reached the sink");
    let mut i = 0;
    while i < 6 { if i < l1 { assert!((unsafe { &*sp }).got[i] == expect[i], "C07,C09: sink bytes differ from the message"); } i += 1; }
    assert!((unsafe { &*sp }).calls <= 4, "C09: more pipe calls than bytes + 1 for one send");
    match r1 {
        Ok(()) => {
            assert!(l1 == 3, "C09: send returned Ok before the whole message reached the sink");
            let r2 = tx.alloc().unwrap().new_in_place(flatty::flat_vec![c, d]).unwrap().send();
            let l2 = (unsafe { &*sp }).len;
            assert!(l2 >= 3 && l2 <= 6, "C09: sink length after the second send");
            let mut j = 0;
            while j < 6 { if j < l2 { assert!((unsafe { &*sp }).got[j] == expect[j], "C07,C09: sink bytes differ from the message sequence"); } j += 1; }
            if r2.is_ok() { assert!(l2 == 6, "C09: send returned Ok before the whole message reached the sink"); }
        }
        Err(_) => {
            if l1 == 0 {
                // nothing of the message was written: the stream is still framed, the sender must still work
                let r2 = tx.alloc().unwrap().new_in_place(flatty::flat_vec![c, d]).unwrap().send();
                let l2 = (unsafe { &*sp }).len;
                let exp2 = [2u8, c, d];
                let mut j = 0;
                while j < 3 { if j < l2 { assert!((unsafe { &*sp }).got[j] == exp2[j], "C09: sink bytes differ from the message after a clean failure"); } j += 1; }
                let _ = r2;
            }
            // l1 > 0: a partial message is in the sink; the sender is poisoned and refuses further use (by assertion)
        }
    }
}

/// source that delivers a prefix of a message and then fails the same way on EVERY call (a stalled non-blocking peer)
struct StalledSrc { data: [u8; 3], given: usize, upto: usize, calls: usize, kind: u8 }
impl Read for StalledSrc {
    fn read(&mut self, buf: &mut [u8]) -> io::Result<usize> {
        self.calls += 1;
        // C09 / C10: "returns an error after a bounded number of pipe calls instead of retrying forever"
        assert!(self.calls <= 5, "C09,C10: recv keeps calling a pipe that fails every time");
        if self.given < self.upto && !buf.is_empty() {
            buf[0] = self.data[self.given];
            self.given += 1;
            return Ok(1);
        }
        Err(match self.kind { 0 => io::ErrorKind::WouldBlock, 1 => io::ErrorKind::Interrupted, 2 => io::ErrorKind::TimedOut, _ => io::ErrorKind::Other }.into())
    }
}

/// C09 / C10: a read error (whatever its kind) surfaces as RecvError::Read after a bounded number of pipe calls
#[kani::proof]
#[kani::unwind(8)]
fn c10_recv_persistent_read_error() {
    // BOUNDED: message [2, a, b]; 0..=2 of its bytes arrive, then every read fails with one of four error kinds
    let data: [u8; 3] = [2, kani::any(), kani::any()];
    let upto: usize = kani::any();
    kani::assume(upto <= 2);
    let kind: u8 = kani::any();
    kani::assume(kind < 4);
    let mut rx = IoReceiver::<Msg, _>::io(StalledSrc { data, given: 0, upto, calls: 0, kind }, 3);
    let r = rx.recv();
    assert!(matches!(r, Err(RecvError::Read(_))), "C09,C10: a failing pipe did not surface as a read error");
}

// ---------------------------------------------------------------------------------------------------------------- async
use core::future::Future;
use core::pin::Pin;
use core::task::{Context, Poll};
use flatty_io::{AsyncIoReceiver, AsyncIoSender};
use futures::io::{AsyncRead, AsyncWrite};

/// async source: at every poll symbolically Pending, or a chunk of symbolic size (>= 1 while data remains)
struct ASrc<const N: usize> { data: [u8; N], len: usize, pos: usize, pendings: usize }
impl<const N: usize> AsyncRead for ASrc<N> {
    fn poll_read(mut self: Pin<&mut Self>, _cx: &mut Context<'_>, buf: &mut [u8]) -> Poll<io::Result<usize>> {
        let pend: bool = kani::any();
        if pend && self.pendings < 2 { self.pendings += 1; return Poll::Pending; }
        let left = self.len - self.pos;
        let want: usize = kani::any();
        kani::assume(want <= left && want <= buf.len() && (want > 0 || left == 0 || buf.is_empty()));
        let mut i = 0;
        while i < N { if i < want { buf[i] = self.data[self.pos + i]; } i += 1; }
        self.pos += want;
        Poll::Ready(Ok(want))
    }
}

/// drive a future by hand: every Pending is followed by another poll (the pipe bounds the number of Pendings)
fn drive<F: Future>(mut f: Pin<&mut F>, max_polls: usize) -> Option<F::Output> {
    let waker = futures::task::noop_waker();
    let mut cx = Context::from_waker(&waker);
    let mut k = 0;
    while k < max_polls {
        if let Poll::Ready(x) = f.as_mut().poll(&mut cx) { return Some(x); }
        k += 1;
    }
    None
}

/// C08 / C10 (async receiver): every byte stream of <= 3 bytes, every chunking, every placement of up to two Pending results:
/// recv completes once the pipe made progress, yields exactly the next frame of the stream or an error, never panics
#[kani::proof]
#[kani::unwind(8)]
fn c08_async_recv_arbitrary_bytes() {
    const N: usize = 3; // BOUNDED: stream <= 3 bytes, one recv, <= 2 Pending results, max_msg_len 3
    let data: [u8; N] = kani::any();
    let len: usize = kani::any();
    kani::assume(len <= N);
    let mut rx = AsyncIoReceiver::<Msg, _>::io(ASrc::<N> { data, len, pos: 0, pendings: 0 }, 3);
    let fut = rx.recv();
    futures::pin_mut!(fut);
    let out = drive(fut, 6);
    assert!(out.is_some(), "C08: recv did not complete although the pipe made all the progress it can");
    let res = out.unwrap();
    if let Ok(g) = res {
        let n = g.len();
        assert!(1 + n <= len, "C10: a message extends past the bytes that were sent");
        assert!(data[0] as usize == n, "C08,C10: message length differs from the stream");
        let mut i = 0;
        while i < N { if i < n { assert!(g.as_slice()[i] == data[1 + i], "C08,C10: message content differs from the stream"); } i += 1; }
        drop(g);
    } else if let Err(flatty_io::RecvError::Closed) = res {
        // completeness: the stream may end inside a frame, but not with a complete first frame undelivered
        let pending = 0 < len && (data[0] as usize) <= 2 && 1 + (data[0] as usize) <= len;
        assert!(!pending, "C08: Closed although a complete message that was sent has not been delivered");
    }
}
