//! Corpus of #[flat] definitions (the sampled "programs" quantifier).  Expanded by the REAL proc-macro of the
//! working tree on every build.
use flatty::{flat, portable::{be, le, Bool}, FlatString, FlatVec, FlexVec};

#[derive(Default, Clone, Debug, PartialEq, Eq)]
#[flat]
pub struct SStruct {
    pub a: u8,
    pub b: u16,
    pub c: u32,
    pub d: [u64; 2],
}

#[derive(Default, Clone, Debug, PartialEq, Eq)]
#[flat]
pub struct SBool {
    pub x: u16,
    pub flag: Bool,
    pub arr: [Bool; 2],
    pub y: u32,
}

#[derive(Default, Clone, Debug, PartialEq, Eq)]
#[flat]
pub enum SEnum {
    #[default]
    A,
    B(u16, u8),
    C { a: u8, b: u16 },
    D(u32),
}

#[derive(Default, Clone, Copy, Debug, PartialEq, Eq)]
#[flat]
pub enum CEnum {
    #[default]
    A,
    B,
    C,
}

#[flat(sized = false, default = true)]
pub struct UStruct {
    pub a: u8,
    pub b: u16,
    pub c: FlatVec<u8, u16>,
}

/// unsized struct whose alignment (8) is larger than its tail's (2): size() has trailing padding
#[flat(sized = false, default = true)]
pub struct UPad {
    pub a: u64,
    pub v: FlatVec<u8, u16>,
}

/// unsized struct with four fields whose C offsets all need rounding up (1 -> 4, 9 -> 16): every step of the generated
/// offset fold (`fold_size!` with a non-zero accumulator, the last field's own alignment) is exercised
#[flat(sized = false, default = true)]
pub struct UWide {
    pub a: u8,
    pub b: u32,
    pub c: u8,
    pub v: FlatVec<u64, u32>,
}

#[flat(sized = false, default = true)]
pub enum UEnum {
    #[default]
    A,
    B(u8, u16),
    C { offset: u32, bytes: FlatVec<u8, u16> },
}

#[flat(sized = false, default = true)]
pub struct UBoolVec {
    pub n: u8,
    pub flags: FlatVec<Bool, u8>,
}

#[flat(portable = true, default = true)]
pub struct PStruct {
    pub a: u8,
    pub b: le::U16,
    pub c: be::U32,
    pub f: Bool,
}

#[flat(sized = false, portable = true, default = true)]
pub struct PUStruct {
    pub a: le::U16,
    pub b: FlatVec<be::U16, le::U16>,
}

#[flat(sized = false, portable = true, default = true)]
pub enum PUEnum {
    #[default]
    A,
    B(be::U16, u8),
    C(PUStruct),
}

/// unsized enum with three-field variants whose middle field needs padding (small, big, small alignments)
#[flat(sized = false, default = true)]
pub enum UEnum3 {
    #[default]
    A,
    B(u8, u32, u8),
    C { id: u8, key: u16, items: FlatVec<u8, u8> },
}

/// unsized enum whose small variant holds a CONSTRAINED byte (Bool) at a position that a larger variant's first field covers
#[flat(sized = false, default = true)]
pub enum UEnumB {
    #[default]
    A,
    B(u8, Bool),
    C { offset: u32, bytes: FlatVec<u8, u16> },
}

/// sized types whose Default is NOT the all-zero image
#[derive(Default, Clone, Copy, Debug, PartialEq, Eq)]
#[flat]
pub enum CEnumD {
    A,
    #[default]
    B,
    C,
}

#[derive(Clone, Debug, PartialEq, Eq)]
#[flat]
pub struct SDef {
    pub a: u8,
    pub b: u16,
    pub e: CEnumD,
}
impl Default for SDef {
    fn default() -> Self {
        SDef { a: 7, b: 0x1234, e: CEnumD::C }
    }
}

#[flat(sized = false, default = true)]
pub enum UEnumD {
    A,
    #[default]
    Idle,
    Data(FlatVec<u8, u16>),
}

/// unsized enum whose tag (u16) is wider than every payload field: the tag decides the alignment
#[flat(sized = false, tag_type = "u16")]
pub enum UEnumW {
    A,
    B(u8),
    C(FlatVec<u8, u8>),
}

/// an unrelated multi-segment attribute on a variant BEFORE the `#[default]` one: the default lookup must not mistake it
#[flat(sized = false, default = true)]
pub enum UEnumAttr {
    #[rustfmt::skip]
    Ping,
    #[default]
    Idle,
    Data(FlatVec<u8, u16>),
}

/// a NON-portable generic wrapper and a `portable = true` definition that embeds it: `Packet<T>` must not be `Portable`
/// for any `T` (its field type `Native<T>` is not), although every generic parameter is
#[flat]
#[derive(Default, Clone, Copy, Debug, PartialEq, Eq)]
pub struct Native<T: flatty::Flat + Default + Copy> {
    pub x: u32,
    pub y: T,
}
#[flat(portable = true)]
#[derive(Default, Clone, Copy, Debug, PartialEq, Eq)]
pub struct Packet<T: flatty::Flat + Default + Copy> {
    pub tag: u8,
    pub body: Native<T>,
}

/// a sized struct whose SIZE (3) differs from its ALIGN (1): arrays / vectors of it have a non-trivial element stride
#[derive(Default, Clone, Copy, Debug, PartialEq, Eq)]
#[flat]
pub struct B3 {
    pub a: Bool,
    pub b: Bool,
    pub c: Bool,
}
