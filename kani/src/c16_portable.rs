//! C16 -- portable scalars.  Every harness is loop-free over the full value domain: a complete proof.
use flatty::portable::{be, le, Bool};
use flatty::traits::{FlatBase, FlatSized, FlatValidate};
use num_traits::{Bounded, FromPrimitive, NumCast, One, Signed, ToPrimitive, Zero};
use core::mem::{align_of, size_of};

macro_rules! int_repr {
    ($name:ident, $T:ty, $N:ty, $to:ident, $from:ident) => {
        #[kani::proof]
        fn $name() {
            let x: $N = kani::any();
            let y: $N = kani::any();
            let px = <$T as From<$N>>::from(x);
            let py = <$T as From<$N>>::from(y);
            // layout
            assert!(align_of::<$T>() == 1);
            assert!(size_of::<$T>() == size_of::<$N>());
            assert!(<$T as FlatBase>::ALIGN == 1 && <$T as FlatSized>::SIZE == size_of::<$N>());
            // stored bytes are exactly the fixed byte order; conversions are lossless
            assert!(px.to_bytes() == x.$to());
            assert!(<$N as From<$T>>::from(px) == x);
            let b: [u8; size_of::<$N>()] = kani::any();
            assert!(<$T>::from_bytes(b).to_bytes() == b);
            assert!(<$N as From<$T>>::from(<$T>::from_bytes(b)) == <$N>::$from(b));
            // equality is equality of stored bytes; order is the native order
            assert!((px == py) == (px.to_bytes() == py.to_bytes()));
            assert!((px == py) == (x == y));
            assert!(px.cmp(&py) == x.cmp(&y));
            assert!(px.partial_cmp(&py) == x.partial_cmp(&y));
            assert!((px < py) == (x < y) && (px <= py) == (x <= y));
            // constants
            assert!(<$N as From<$T>>::from(<$T as Zero>::zero()) == 0);
            assert!(<$N as From<$T>>::from(<$T as One>::one()) == 1);
            assert!(<$N as From<$T>>::from(<$T as Bounded>::min_value()) == <$N>::MIN);
            assert!(<$N as From<$T>>::from(<$T as Bounded>::max_value()) == <$N>::MAX);
            assert!(px.is_zero() == (x == 0));
            // conversions used by the containers for lengths
            assert!(px.to_u64() == x.to_u64());
            assert!(px.to_i64() == x.to_i64());
            assert!(px.to_usize() == x.to_usize());
            let u: u64 = kani::any();
            let i: i64 = kani::any();
            let z: usize = kani::any();
            assert!(<$T as FromPrimitive>::from_u64(u).map(|v| <$N as From<$T>>::from(v)) == <$N as FromPrimitive>::from_u64(u));
            assert!(<$T as FromPrimitive>::from_i64(i).map(|v| <$N as From<$T>>::from(v)) == <$N as FromPrimitive>::from_i64(i));
            assert!(<$T as FromPrimitive>::from_usize(z).map(|v| <$N as From<$T>>::from(v)) == <$N as FromPrimitive>::from_usize(z));
            assert!(<$T as NumCast>::from(u).map(|v| <$N as From<$T>>::from(v)) == <$N as NumCast>::from(u));
            assert!(<$T as NumCast>::from(i).map(|v| <$N as From<$T>>::from(v)) == <$N as NumCast>::from(i));
        }
    };
}

macro_rules! int_addsub {
    ($name:ident, $T:ty, $N:ty) => {
        #[kani::proof]
        fn $name() {
            let x: $N = kani::any();
            let y: $N = kani::any();
            let px = <$T as From<$N>>::from(x);
            let py = <$T as From<$N>>::from(y);
            if let Some(s) = x.checked_add(y) {
                assert!(<$N as From<$T>>::from(px + py) == s);
                let mut a = px;
                a += py;
                assert!(<$N as From<$T>>::from(a) == s);
            }
            if let Some(s) = x.checked_sub(y) {
                assert!(<$N as From<$T>>::from(px - py) == s);
                let mut a = px;
                a -= py;
                assert!(<$N as From<$T>>::from(a) == s);
            }
        }
    };
}

macro_rules! int_mul {
    ($name:ident, $T:ty, $N:ty) => {
        #[kani::proof]
        fn $name() {
            let x: $N = kani::any();
            let y: $N = kani::any();
            let px = <$T as From<$N>>::from(x);
            let py = <$T as From<$N>>::from(y);
            if let Some(s) = x.checked_mul(y) {
                assert!(<$N as From<$T>>::from(px * py) == s);
                let mut a = px;
                a *= py;
                assert!(<$N as From<$T>>::from(a) == s);
            }
        }
    };
}

macro_rules! int_divrem {
    ($name:ident, $T:ty, $N:ty) => {
        #[kani::proof]
        fn $name() {
            let x: $N = kani::any();
            let y: $N = kani::any();
            let px = <$T as From<$N>>::from(x);
            let py = <$T as From<$N>>::from(y);
            if let Some(s) = x.checked_div(y) {
                assert!(<$N as From<$T>>::from(px / py) == s);
                let mut a = px;
                a /= py;
                assert!(<$N as From<$T>>::from(a) == s);
            }
            if let Some(s) = x.checked_rem(y) {
                assert!(<$N as From<$T>>::from(px % py) == s);
                let mut a = px;
                a %= py;
                assert!(<$N as From<$T>>::from(a) == s);
            }
        }
    };
}

macro_rules! int_signed {
    ($name:ident, $T:ty, $N:ty) => {
        #[kani::proof]
        fn $name() {
            let x: $N = kani::any();
            let px = <$T as From<$N>>::from(x);
            if x != <$N>::MIN {
                assert!(<$N as From<$T>>::from(-px) == -x);
                assert!(<$N as From<$T>>::from(px.abs()) == x.abs());
            }
            assert!(<$N as From<$T>>::from(px.signum()) == x.signum());
            assert!(px.is_positive() == x.is_positive());
            assert!(px.is_negative() == x.is_negative());
        }
    };
}

int_repr!(c16_le_u16_repr, le::U16, u16, to_le_bytes, from_le_bytes);
int_repr!(c16_le_u32_repr, le::U32, u32, to_le_bytes, from_le_bytes);
int_repr!(c16_le_u64_repr, le::U64, u64, to_le_bytes, from_le_bytes);
int_repr!(c16_le_i16_repr, le::I16, i16, to_le_bytes, from_le_bytes);
int_repr!(c16_le_i32_repr, le::I32, i32, to_le_bytes, from_le_bytes);
int_repr!(c16_le_i64_repr, le::I64, i64, to_le_bytes, from_le_bytes);
int_repr!(c16_be_u16_repr, be::U16, u16, to_be_bytes, from_be_bytes);
int_repr!(c16_be_u32_repr, be::U32, u32, to_be_bytes, from_be_bytes);
int_repr!(c16_be_u64_repr, be::U64, u64, to_be_bytes, from_be_bytes);
int_repr!(c16_be_i16_repr, be::I16, i16, to_be_bytes, from_be_bytes);
int_repr!(c16_be_i32_repr, be::I32, i32, to_be_bytes, from_be_bytes);
int_repr!(c16_be_i64_repr, be::I64, i64, to_be_bytes, from_be_bytes);

int_addsub!(c16_le_u16_addsub, le::U16, u16);
int_addsub!(c16_le_u32_addsub, le::U32, u32);
int_addsub!(c16_le_u64_addsub, le::U64, u64);
int_addsub!(c16_le_i16_addsub, le::I16, i16);
int_addsub!(c16_le_i32_addsub, le::I32, i32);
int_addsub!(c16_le_i64_addsub, le::I64, i64);
int_addsub!(c16_be_u16_addsub, be::U16, u16);
int_addsub!(c16_be_u32_addsub, be::U32, u32);
int_addsub!(c16_be_u64_addsub, be::U64, u64);
int_addsub!(c16_be_i16_addsub, be::I16, i16);
int_addsub!(c16_be_i32_addsub, be::I32, i32);
int_addsub!(c16_be_i64_addsub, be::I64, i64);

int_mul!(c16_le_u16_mul, le::U16, u16);
int_mul!(c16_le_i16_mul, le::I16, i16);
int_mul!(c16_be_u16_mul, be::U16, u16);
int_mul!(c16_be_i16_mul, be::I16, i16);
int_mul!(c16_le_u32_mul, le::U32, u32);
int_mul!(c16_le_i32_mul, le::I32, i32);
int_mul!(c16_be_u32_mul, be::U32, u32);
int_mul!(c16_be_i32_mul, be::I32, i32);

int_divrem!(c16_le_u16_divrem, le::U16, u16);
int_divrem!(c16_le_i16_divrem, le::I16, i16);
int_divrem!(c16_be_u16_divrem, be::U16, u16);
int_divrem!(c16_be_i16_divrem, be::I16, i16);

int_signed!(c16_le_i16_signed, le::I16, i16);
int_signed!(c16_le_i32_signed, le::I32, i32);
int_signed!(c16_le_i64_signed, le::I64, i64);
int_signed!(c16_be_i16_signed, be::I16, i16);
int_signed!(c16_be_i32_signed, be::I32, i32);
int_signed!(c16_be_i64_signed, be::I64, i64);

macro_rules! float_repr {
    ($name:ident, $T:ty, $N:ty, $B:ty, $to:ident, $from:ident) => {
        #[kani::proof]
        fn $name() {
            // every bit pattern, including NaN payloads, +-0, infinities, subnormals
            let xb: $B = kani::any();
            let yb: $B = kani::any();
            let x = <$N>::from_bits(xb);
            let y = <$N>::from_bits(yb);
            let px = <$T as From<$N>>::from(x);
            let py = <$T as From<$N>>::from(y);
            assert!(align_of::<$T>() == 1);
            assert!(size_of::<$T>() == size_of::<$N>());
            assert!(<$T as FlatBase>::ALIGN == 1 && <$T as FlatSized>::SIZE == size_of::<$N>());
            assert!(px.to_bytes() == xb.$to());
            assert!(<$N as From<$T>>::from(px).to_bits() == xb);
            let b: [u8; size_of::<$N>()] = kani::any();
            assert!(<$T>::from_bytes(b).to_bytes() == b);
            assert!(<$N as From<$T>>::from(<$T>::from_bytes(b)).to_bits() == <$B>::$from(b));
            // equality of portable floats is equality of the stored bytes
            assert!((px == py) == (xb == yb));
            assert!(px.partial_cmp(&py) == x.partial_cmp(&y));
            assert!(<$N as From<$T>>::from(<$T as Zero>::zero()).to_bits() == (0.0 as $N).to_bits());
            assert!(<$N as From<$T>>::from(<$T as One>::one()).to_bits() == (1.0 as $N).to_bits());
            assert!(<$N as From<$T>>::from(<$T as Bounded>::min_value()).to_bits() == <$N>::MIN.to_bits());
            assert!(<$N as From<$T>>::from(<$T as Bounded>::max_value()).to_bits() == <$N>::MAX.to_bits());
            assert!(px.is_zero() == (x == 0.0));
            assert!(<$N as From<$T>>::from(-px).to_bits() == (-x).to_bits());
        }
    };
}
float_repr!(c16_le_f32_repr, le::F32, f32, u32, to_le_bytes, from_le_bytes);
float_repr!(c16_be_f32_repr, be::F32, f32, u32, to_be_bytes, from_be_bytes);
float_repr!(c16_le_f64_repr, le::F64, f64, u64, to_le_bytes, from_le_bytes);
float_repr!(c16_be_f64_repr, be::F64, f64, u64, to_be_bytes, from_be_bytes);

macro_rules! float_addsub {
    ($name:ident, $T:ty, $N:ty, $B:ty) => {
        #[kani::proof]
        fn $name() {
            let x = <$N>::from_bits(kani::any::<$B>());
            let y = <$N>::from_bits(kani::any::<$B>());
            // finite operands only: CBMC's NaN check flags `inf + -inf` (a legitimate IEEE NaN) in the library and here alike
            kani::assume(x.is_finite() && y.is_finite());
            let px = <$T as From<$N>>::from(x);
            let py = <$T as From<$N>>::from(y);
            let s = <$N as From<$T>>::from(px + py);
            let e = x + y;
            assert!(s.to_bits() == e.to_bits() || (s.is_nan() && e.is_nan()));
            let d = <$N as From<$T>>::from(px - py);
            let e = x - y;
            assert!(d.to_bits() == e.to_bits() || (d.is_nan() && e.is_nan()));
        }
    };
}
float_addsub!(c16_le_f32_addsub, le::F32, f32, u32);
float_addsub!(c16_be_f32_addsub, be::F32, f32, u32);
float_addsub!(c16_le_f64_addsub, le::F64, f64, u64);
float_addsub!(c16_be_f64_addsub, be::F64, f64, u64);

/// Bool: stores 0/1, validation rejects every other byte (256 cases, exhaustive)
#[kani::proof]
fn c16_bool() {
    let b: u8 = kani::any();
    let bytes = [b];
    let r = Bool::validate(&bytes);
    assert!(r.is_ok() == (b <= 1));
    if let Err(e) = r {
        assert!(e.kind == flatty::error::ErrorKind::InvalidData && e.pos == 0);
    }
    assert!(align_of::<Bool>() == 1 && size_of::<Bool>() == 1);
    let v: bool = kani::any();
    let w: bool = kani::any();
    let pv = Bool::from(v);
    let pw = Bool::from(w);
    assert!(bool::from(pv) == v);
    assert!((pv as u8) == (v as u8));
    assert!(bool::from(!pv) == !v);
    assert!(bool::from(pv & pw) == (v & w));
    assert!(bool::from(pv | pw) == (v | w));
    assert!(bool::from(pv ^ pw) == (v ^ w));
    assert!((pv == pw) == (v == w));
    assert!(pv.cmp(&pw) == v.cmp(&w));
    if b <= 1 {
        let m = Bool::from_bytes(&bytes).unwrap();
        assert!(bool::from(*m) == (b == 1));
    }
}
