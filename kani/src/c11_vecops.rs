//! C11 "FlatVec/FlatString behave as capacity-bounded Vec/String under every history": After any sequence of
//! operations available on a mapped FlatVec or FlatString (push, pop, push_slice, extend, truncate, clear, remove,
//! swap_remove, resize, element writes, push/push_str of chars and strings), its observable state (len, capacity,
//! contents, remaining, size(), equality) equals that of an ordinary Vec/String whose growth is refused beyond the
//! fixed capacity, the capacity never changes, and the bytes validate and re-map to the same state after every
//! step.  Quantifier: for every element type / length type combination (element sizes and alignments 1..16, length
//! types u8..u64 and portable ones, including capacities above the length type's maximum), every buffer size, and
//! every finite sequence of operations with arbitrary arguments.
//!
//! C13 (FlatVec/FlatString part) "A rejected container operation leaves the container exactly as it was": When
//! push, push_slice, push_str ... is refused (no room, length type exhausted), the container's observable state
//! (length, items, size(), validity) is the same as before the call and later operations behave as if the failed
//! call had never happened.
//!
//! Shape: ONE-STEP-FROM-ANY-VALID-STATE contracts.  The pre-state is any byte string (symbolic length <= N,
//! symbolic contents) that the real `from_mut_bytes` accepts; this over-approximates every state reachable by a
//! history of operations, so a one-step contract whose post-state is again checked to validate gives every finite
//! history by induction.  The abstract model (`VModel` / `SModel`) is an ordinary array-backed Vec/String with a
//! fixed capacity.
//!
//! BOUNDED stand-ins (stated per instantiation below): buffer length <= N bytes; the sampled (T, L) combinations
//! are the instantiation list at the bottom of the file.  Panicking preconditions of the model (Vec::remove /
//! swap_remove with index >= len; resize beyond the capacity = "growth refused" by panic) are assumed away, i.e.
//! only the non-panicking domain of the model is compared.
use crate::util::*;
use core::mem::size_of;
use flatty::portable::le;
use flatty::prelude::*;
use flatty::vec::Length;
use flatty::{FlatString, FlatVec};

// ---------------------------------------------------------------------------------------------------------------
// reference side (written from the README / property text, not from the implementation)
// ---------------------------------------------------------------------------------------------------------------

/// smallest multiple of `a` that is >= `x`
fn ceil_to(x: usize, a: usize) -> usize {
    let r = x % a;
    if r == 0 { x } else { x + (a - r) }
}

/// number of element slots of a FlatVec / FlatString mapped over `len` bytes:
/// data starts at `doff`, the mapped extent is floored to a multiple of `align`, capacity is bounded by L::MAX
fn ref_capacity(len: usize, align: usize, doff: usize, tsize: usize, lmax: usize) -> usize {
    let data = (len - doff) - (len - doff) % align;
    let slots = data / tsize;
    if slots < lmax { slots } else { lmax }
}

/// raw decoding of the length field (first bytes of the buffer)
trait RawLen {
    const LMAX: usize;
    fn rd_len(b: &[u8]) -> usize;
}
impl RawLen for u8 {
    const LMAX: usize = u8::MAX as usize;
    fn rd_len(b: &[u8]) -> usize { b[0] as usize }
}
impl RawLen for u16 {
    const LMAX: usize = u16::MAX as usize;
    fn rd_len(b: &[u8]) -> usize { u16::from_ne_bytes([b[0], b[1]]) as usize }
}
impl RawLen for u32 {
    const LMAX: usize = u32::MAX as usize;
    fn rd_len(b: &[u8]) -> usize { u32::from_ne_bytes([b[0], b[1], b[2], b[3]]) as usize }
}
impl RawLen for le::U16 {
    const LMAX: usize = u16::MAX as usize;
    fn rd_len(b: &[u8]) -> usize { u16::from_le_bytes([b[0], b[1]]) as usize }
}

/// raw decoding of one element at byte offset `at`
trait RawElem: Sized {
    fn rd_elem(b: &[u8], at: usize) -> Self;
}
impl RawElem for u8 {
    fn rd_elem(b: &[u8], at: usize) -> Self { b[at] }
}
impl RawElem for u16 {
    fn rd_elem(b: &[u8], at: usize) -> Self { u16::from_ne_bytes([b[at], b[at + 1]]) }
}
impl RawElem for u32 {
    fn rd_elem(b: &[u8], at: usize) -> Self { u32::from_ne_bytes([b[at], b[at + 1], b[at + 2], b[at + 3]]) }
}
impl RawElem for u64 {
    fn rd_elem(b: &[u8], at: usize) -> Self {
        u64::from_ne_bytes([b[at], b[at + 1], b[at + 2], b[at + 3], b[at + 4], b[at + 5], b[at + 6], b[at + 7]])
    }
}
impl RawElem for [u8; 3] {
    fn rd_elem(b: &[u8], at: usize) -> Self { [b[at], b[at + 1], b[at + 2]] }
}

/// independent UTF-8 encoder (reference for String::push)
fn enc_utf8(c: char) -> ([u8; 4], usize) {
    let u = c as u32;
    if u < 0x80 {
        ([u as u8, 0, 0, 0], 1)
    } else if u < 0x800 {
        ([0xC0 | (u >> 6) as u8, 0x80 | (u & 0x3F) as u8, 0, 0], 2)
    } else if u < 0x10000 {
        ([0xE0 | (u >> 12) as u8, 0x80 | ((u >> 6) & 0x3F) as u8, 0x80 | (u & 0x3F) as u8, 0], 3)
    } else {
        ([0xF0 | (u >> 18) as u8, 0x80 | ((u >> 12) & 0x3F) as u8, 0x80 | ((u >> 6) & 0x3F) as u8, 0x80 | (u & 0x3F) as u8], 4)
    }
}

// ---------------------------------------------------------------------------------------------------------------
// FlatVec: model, mapping, state check
// ---------------------------------------------------------------------------------------------------------------

/// bounds every element type of the instantiation list satisfies
trait Elem: Flat + Sized + Copy + PartialEq + Default + kani::Arbitrary + RawElem {}
impl<T: Flat + Sized + Copy + PartialEq + Default + kani::Arbitrary + RawElem> Elem for T {}
trait Len: Flat + Length + RawLen {}
impl<L: Flat + Length + RawLen> Len for L {}

/// ordinary Vec with a fixed capacity: first `n` entries of `it` are the contents
#[derive(Clone, Copy)]
struct VModel<T: Copy, const M: usize> {
    n: usize,
    cap: usize,
    it: [T; M],
}

impl<T: Elem, const M: usize> VModel<T, M> {
    /// snapshot through the safe accessors
    fn of<L: Len>(v: &FlatVec<T, L>) -> Self {
        let n = v.len();
        let cap = v.capacity();
        assert!(n <= cap && cap <= M, "C11: len > capacity in a validated value (or harness model array too small)");
        let s = v.as_slice();
        assert!(s.len() == n, "C11: as_slice().len() != len()");
        let mut it = [T::default(); M];
        let mut i = 0;
        while i < M {
            if i < n { it[i] = s[i]; }
            i += 1;
        }
        VModel { n, cap, it }
    }
    /// `it[idx]` / `it[idx] = x` for a SYMBOLIC idx, done with constant indices.  TOOL NOTE: with T = [u8; 3]
    /// CBMC (Kani 0.68) evaluates a symbolically indexed read of this struct-embedded array of 3-byte elements
    /// wrongly (`m.it[m.n - 1] != v.as_slice()[m.n - 1]` right after the snapshot, while every constant-index
    /// comparison holds and the same code on a local array passes); constant indices avoid the artefact.
    fn get(&self, idx: usize) -> T {
        assert!(idx < M, "C11: harness model index out of range");
        let mut r = T::default();
        let mut j = 0;
        while j < M {
            if j == idx { r = self.it[j]; }
            j += 1;
        }
        r
    }
    fn set(&mut self, idx: usize, x: T) {
        assert!(idx < M, "C11: harness model index out of range");
        let mut j = 0;
        while j < M {
            if j == idx { self.it[j] = x; }
            j += 1;
        }
    }
}

/// the original buffer (to be re-mapped after the operation, when the `&mut FlatVec` is dead)
type Raw = (*const u8, usize);

/// `len`-byte exact-size heap buffer with symbolic contents, `len` symbolic (<= N), start aligned to `align`.
/// PERFORMANCE: `util::sym_slice` with a symbolic `len` makes ONE heap object of symbolic size; every write into
/// it (length field, elements) then goes through CBMC's array theory (truncate on a 6-byte buffer: 90 s).  Here
/// the symbolic length selects one of N+1 objects of CONSTANT size instead (same harness: 6 s); the allocation
/// still ends exactly where the slice ends, so any access past the slice is an out-of-bounds object access.
fn sym_exact<'a, const N: usize>(len: usize, align: usize) -> &'a mut [u8] {
    let mut res: Option<&'a mut [u8]> = None;
    let mut i = 0;
    while i <= N {
        if i == len { res = Some(sym_slice(i, align, 0, N)); }
        i += 1;
    }
    res.unwrap()
}

/// any VALID state: symbolic length <= N, aligned start, symbolic contents, accepted by the real validator
fn map_vec<'a, T: Elem, L: Len, const A: usize, const N: usize>() -> Option<(&'a mut FlatVec<T, L>, Raw)> {
    let (len, off) = any_len_off(N, A);
    kani::assume(off == 0); // a mapped value needs an aligned buffer
    let b = sym_exact::<N>(len, A);
    let raw = (b.as_ptr(), b.len());
    match FlatVec::<T, L>::from_mut_bytes(b) {
        Ok(v) => Some((v, raw)),
        Err(_) => None,
    }
}

/// observable state of `v` == model `m`; capacity as in the model; size() by the reference formula; the bytes
/// validate and re-map to the same state
fn check_vec<T: Elem, L: Len, const A: usize, const D: usize, const M: usize>(v: &FlatVec<T, L>, m: &VModel<T, M>, raw: Raw) {
    let n = m.n;
    assert!(v.len() == n, "C11: len differs from the Vec model");
    assert!(v.capacity() == m.cap, "C11: capacity changed");
    assert!(v.remaining() == m.cap - n, "C11: remaining() != capacity - len");
    assert!(v.is_empty() == (n == 0), "C11: is_empty");
    assert!(v.is_full() == (n == m.cap), "C11: is_full");
    let s = v.as_slice();
    assert!(s.len() == n, "C11: as_slice().len()");
    let mut i = 0;
    while i < M {
        if i < n { assert!(s[i] == m.it[i], "C11: contents differ from the Vec model"); }
        i += 1;
    }
    assert!(v.size() == ceil_to(D + n * size_of::<T>(), A), "C11: size() != ceil(DATA_OFFSET + len*size_of::<T>(), ALIGN)");
    // the value's own bytes validate and re-map to the same state
    let ab = v.as_bytes();
    let r = FlatVec::<T, L>::from_bytes(ab);
    assert!(r.is_ok(), "C11: as_bytes() of the value does not validate");
    if let Ok(w) = r {
        assert!(w.len() == n, "C11: as_bytes() re-maps to a different len");
        let ws = w.as_slice();
        let mut i = 0;
        while i < M {
            if i < n && i < ws.len() { assert!(ws[i] == m.it[i], "C11: as_bytes() re-maps to different contents"); }
            i += 1;
        }
        assert!(w.capacity() == m.cap, "C11: as_bytes() re-maps to a different capacity");
    }
    // the buffer the value was mapped from validates and re-maps to the same state
    let ob = unsafe { core::slice::from_raw_parts(raw.0, raw.1) };
    let r = FlatVec::<T, L>::from_bytes(ob);
    assert!(r.is_ok(), "C11: the buffer does not validate after the operation");
    if let Ok(w) = r {
        assert!(w.len() == n, "C11: buffer re-maps to a different len");
        assert!(w.capacity() == m.cap, "C11: buffer re-maps to a different capacity");
        let ws = w.as_slice();
        let mut i = 0;
        while i < M {
            if i < n && i < ws.len() { assert!(ws[i] == m.it[i], "C11: buffer re-maps to different contents"); }
            i += 1;
        }
    }
}

// ---------------------------------------------------------------------------------------------------------------
// FlatVec operations (generic over the instantiation; A = ALIGN, D = DATA_OFFSET, N = buffer bound, M >= capacity)
// ---------------------------------------------------------------------------------------------------------------

/// accessors of a freshly mapped value == raw decoding of the bytes; acceptance == reference
fn op_state<T: Elem, L: Len, const A: usize, const D: usize, const N: usize, const M: usize>() {
    let (len, off) = any_len_off(N, A);
    kani::assume(off == 0);
    let b = sym_exact::<N>(len, A);
    let raw = (b.as_ptr(), b.len());
    // raw decoding first
    let mut exp_ok = len >= D;
    let mut rn = 0;
    let mut cap = 0;
    let mut it = [T::default(); M];
    if exp_ok {
        rn = L::rd_len(b);
        cap = ref_capacity(len, A, D, size_of::<T>(), L::LMAX);
        exp_ok = rn <= cap;
        let mut i = 0;
        while i < M {
            if exp_ok && i < rn { it[i] = T::rd_elem(b, D + i * size_of::<T>()); }
            i += 1;
        }
    }
    let r = FlatVec::<T, L>::from_mut_bytes(b);
    assert!(r.is_ok() == exp_ok, "C11: acceptance differs from the reference");
    if let Ok(v) = r {
        kani::cover!(rn == cap && cap > 0, "full vector");
        kani::cover!(rn < cap, "non-full vector");
        let m = VModel::<T, M> { n: rn, cap, it };
        check_vec::<T, L, A, D, M>(v, &m, raw);
        // the snapshot used by the other harnesses agrees
        let m2 = VModel::<T, M>::of(v);
        assert!(m2.n == rn && m2.cap == cap, "C11: accessor snapshot differs from the raw decoding");
    }
}

fn op_push<T: Elem, L: Len, const A: usize, const D: usize, const N: usize, const M: usize>() {
    let Some((v, raw)) = map_vec::<T, L, A, N>() else { return };
    let mut m = VModel::<T, M>::of(v);
    let x: T = kani::any();
    let r = v.push(x);
    if m.n < m.cap {
        kani::cover!(true, "push accepted");
        assert!(r.is_ok(), "C11: push refused although len < capacity");
        m.set(m.n, x);
        m.n += 1;
    } else {
        kani::cover!(true, "push refused");
        // C13: the value comes back, the state is the old one (checked below against the unchanged model)
        match r {
            Err(y) => assert!(y == x, "C13: refused push returns a different item"),
            Ok(()) => panic!("C11: push accepted beyond the capacity"),
        }
    }
    check_vec::<T, L, A, D, M>(v, &m, raw);
}

fn op_pop<T: Elem, L: Len, const A: usize, const D: usize, const N: usize, const M: usize>() {
    let Some((v, raw)) = map_vec::<T, L, A, N>() else { return };
    let mut m = VModel::<T, M>::of(v);
    let r = v.pop();
    if m.n == 0 {
        kani::cover!(true, "pop on empty");
        assert!(r.is_none(), "C11: pop on an empty vector returned an item");
    } else {
        kani::cover!(true, "pop on non-empty");
        m.n -= 1;
        match r {
            Some(y) => assert!(y == m.get(m.n), "C11: pop returned a different item than Vec::pop"),
            None => panic!("C11: pop on a non-empty vector returned None"),
        }
    }
    check_vec::<T, L, A, D, M>(v, &m, raw);
}

/// push_slice of 0..=K items
fn op_push_slice<T: Elem, L: Len, const A: usize, const D: usize, const N: usize, const M: usize>() {
    const K: usize = 3;
    let Some((v, raw)) = map_vec::<T, L, A, N>() else { return };
    let mut m = VModel::<T, M>::of(v);
    let xs: [T; K] = kani::any();
    let k: usize = kani::any();
    kani::assume(k <= K);
    let r = v.push_slice(&xs[..k]);
    if k <= m.cap - m.n {
        kani::cover!(k == K, "push_slice accepted (full-length slice)");
        kani::cover!(k == 0, "push_slice of an empty slice");
        assert!(r.is_ok(), "C11: push_slice refused although the slice fits");
        let mut i = 0;
        while i < K {
            if i < k { m.set(m.n + i, xs[i]); }
            i += 1;
        }
        m.n += k;
    } else {
        kani::cover!(m.n < m.cap, "push_slice refused although part of the slice would fit");
        kani::cover!(m.n == m.cap, "push_slice refused on a full vector");
        // C13: nothing is copied (checked below against the unchanged model)
        assert!(r.is_err(), "C11: push_slice accepted beyond the capacity");
    }
    check_vec::<T, L, A, D, M>(v, &m, raw);
}

/// extend_until_full with an iterator of 0..=K items: the prefix that fits is appended (Vec::extend refused at capacity)
fn op_extend<T: Elem, L: Len, const A: usize, const D: usize, const N: usize, const M: usize>() {
    const K: usize = 3;
    let Some((v, raw)) = map_vec::<T, L, A, N>() else { return };
    let mut m = VModel::<T, M>::of(v);
    let xs: [T; K] = kani::any();
    let k: usize = kani::any();
    kani::assume(k <= K);
    v.extend_until_full(xs[..k].iter().copied());
    let room = m.cap - m.n;
    let take = if k < room { k } else { room };
    kani::cover!(take < k, "extend cut at the capacity");
    kani::cover!(take == k && k == K, "extend takes everything");
    let mut i = 0;
    while i < K {
        if i < take { m.set(m.n + i, xs[i]); }
        i += 1;
    }
    m.n += take;
    check_vec::<T, L, A, D, M>(v, &m, raw);
}

fn op_truncate<T: Elem, L: Len, const A: usize, const D: usize, const N: usize, const M: usize>() {
    let Some((v, raw)) = map_vec::<T, L, A, N>() else { return };
    let mut m = VModel::<T, M>::of(v);
    let new_len: usize = kani::any(); // arbitrary, also far above the capacity
    v.truncate(new_len);
    kani::cover!(new_len < m.n, "truncate shortens");
    kani::cover!(new_len >= m.n, "truncate is a no-op");
    if new_len < m.n { m.n = new_len; }
    check_vec::<T, L, A, D, M>(v, &m, raw);
}

fn op_clear<T: Elem, L: Len, const A: usize, const D: usize, const N: usize, const M: usize>() {
    let Some((v, raw)) = map_vec::<T, L, A, N>() else { return };
    let mut m = VModel::<T, M>::of(v);
    kani::cover!(m.n > 1, "clear of a vector with several items");
    v.clear();
    m.n = 0;
    check_vec::<T, L, A, D, M>(v, &m, raw);
}

/// remove(i), i < len (Vec::remove panics otherwise)
fn op_remove<T: Elem, L: Len, const A: usize, const D: usize, const N: usize, const M: usize>() {
    let Some((v, raw)) = map_vec::<T, L, A, N>() else { return };
    let mut m = VModel::<T, M>::of(v);
    let i: usize = kani::any();
    kani::assume(i < m.n);
    kani::cover!(i + 1 < m.n, "remove shifts a tail");
    kani::cover!(i + 1 == m.n, "remove of the last item");
    let y = v.remove(i);
    assert!(y == m.get(i), "C11: remove returned a different item than Vec::remove");
    let mut j = 0;
    while j < M {
        if j >= i && j + 1 < m.n { m.it[j] = m.it[j + 1]; }
        j += 1;
    }
    m.n -= 1;
    check_vec::<T, L, A, D, M>(v, &m, raw);
}

/// swap_remove(i), i < len (Vec::swap_remove panics otherwise)
fn op_swap_remove<T: Elem, L: Len, const A: usize, const D: usize, const N: usize, const M: usize>() {
    let Some((v, raw)) = map_vec::<T, L, A, N>() else { return };
    let mut m = VModel::<T, M>::of(v);
    let i: usize = kani::any();
    kani::assume(i < m.n);
    kani::cover!(i + 1 < m.n, "swap_remove moves the last item");
    kani::cover!(i + 1 == m.n, "swap_remove of the last item");
    let y = v.swap_remove(i);
    assert!(y == m.get(i), "C11: swap_remove returned a different item than Vec::swap_remove");
    let last = m.get(m.n - 1);
    m.set(i, last);
    m.n -= 1;
    check_vec::<T, L, A, D, M>(v, &m, raw);
}

/// resize(new_len, x), new_len <= capacity (growth beyond the capacity is refused by a panic)
fn op_resize<T: Elem, L: Len, const A: usize, const D: usize, const N: usize, const M: usize>() {
    let Some((v, raw)) = map_vec::<T, L, A, N>() else { return };
    let mut m = VModel::<T, M>::of(v);
    let new_len: usize = kani::any();
    kani::assume(new_len <= m.cap);
    let x: T = kani::any();
    kani::cover!(new_len > m.n + 1, "resize grows by several items");
    kani::cover!(new_len < m.n, "resize shrinks");
    v.resize(new_len, x);
    let mut j = 0;
    while j < M {
        if j >= m.n && j < new_len { m.it[j] = x; }
        j += 1;
    }
    m.n = new_len;
    check_vec::<T, L, A, D, M>(v, &m, raw);
}

/// element write through IndexMut / as_mut_slice() / DerefMut, i < len
fn op_write<T: Elem, L: Len, const A: usize, const D: usize, const N: usize, const M: usize>() {
    let Some((v, raw)) = map_vec::<T, L, A, N>() else { return };
    let mut m = VModel::<T, M>::of(v);
    let i: usize = kani::any();
    kani::assume(i < m.n);
    let x: T = kani::any();
    let how: u8 = kani::any();
    if how == 0 {
        v[i] = x;
    } else if how == 1 {
        v.as_mut_slice()[i] = x;
    } else {
        let s: &mut [T] = &mut **v; // FlatVec -> GenericVec -> [T]
        assert!(s.len() == m.n, "C11: DerefMut slice length != len()");
        s[i] = x;
    }
    kani::cover!(how == 0 && i > 0, "write through IndexMut");
    kani::cover!(how > 1, "write through DerefMut");
    m.set(i, x);
    check_vec::<T, L, A, D, M>(v, &m, raw);
}

/// `==` of two mapped vectors == equality of (len, contents), whatever the capacities are
fn op_eq<T: Elem, L: Len, const A: usize, const D: usize, const N: usize, const M: usize>() {
    let Some((a, _)) = map_vec::<T, L, A, N>() else { return };
    let Some((b, _)) = map_vec::<T, L, A, N>() else { return };
    let ma = VModel::<T, M>::of(a);
    let mb = VModel::<T, M>::of(b);
    let mut same = ma.n == mb.n;
    let mut i = 0;
    while i < M {
        if i < ma.n && i < mb.n && ma.it[i] != mb.it[i] { same = false; }
        i += 1;
    }
    let eq = *a == *b;
    assert!(eq == same, "C11: == differs from Vec equality");
    assert!((*a != *b) == !same, "C11: != differs from Vec inequality");
    assert!(*a == *a, "C11: == is not reflexive");
    kani::cover!(eq && ma.cap != mb.cap && ma.n > 0, "equal contents, different capacities");
    kani::cover!(!eq && ma.n == mb.n, "same length, different contents");
}

/// C13: a refused push leaves (length, items, size(), validity) as they were, and a later operation behaves as if
/// the refused call had never happened
fn op13_push<T: Elem, L: Len, const A: usize, const D: usize, const N: usize, const M: usize>() {
    let Some((v, raw)) = map_vec::<T, L, A, N>() else { return };
    let mut m = VModel::<T, M>::of(v);
    kani::assume(m.n == m.cap); // no room
    let x: T = kani::any();
    let r = v.push(x);
    match r {
        Err(y) => assert!(y == x, "C13: refused push returns a different item"),
        Ok(()) => panic!("C13: push accepted on a full vector"),
    }
    check_vec::<T, L, A, D, M>(v, &m, raw);
    // later operation: pop, then the same push succeeds
    let p = v.pop();
    if m.n == 0 {
        kani::cover!(true, "refused push on a zero-capacity vector");
        assert!(p.is_none(), "C13: pop after a refused push on an empty vector");
    } else {
        kani::cover!(true, "refused push on a full non-empty vector");
        m.n -= 1;
        assert!(p == Some(m.get(m.n)), "C13: pop after a refused push returns a different item");
        assert!(v.push(x).is_ok(), "C13: push after pop refused");
        m.set(m.n, x);
        m.n += 1;
    }
    check_vec::<T, L, A, D, M>(v, &m, raw);
}

/// C13: a refused push_slice copies nothing (also when a prefix would fit); later operations unaffected
fn op13_push_slice<T: Elem, L: Len, const A: usize, const D: usize, const N: usize, const M: usize>() {
    const K: usize = 3;
    let Some((v, raw)) = map_vec::<T, L, A, N>() else { return };
    let mut m = VModel::<T, M>::of(v);
    let xs: [T; K] = kani::any();
    let k: usize = kani::any();
    kani::assume(k <= K && k > m.cap - m.n); // does not fit
    kani::cover!(m.n < m.cap, "a prefix of the refused slice would fit");
    let r = v.push_slice(&xs[..k]);
    assert!(r.is_err(), "C13: push_slice accepted a slice that does not fit");
    check_vec::<T, L, A, D, M>(v, &m, raw);
    // later operation: the prefix that fits is accepted and lands right behind the old contents
    let room = m.cap - m.n;
    let r2 = v.push_slice(&xs[..room]);
    assert!(r2.is_ok(), "C13: push_slice of a fitting slice refused after a refused push_slice");
    let mut i = 0;
    while i < K {
        if i < room { m.set(m.n + i, xs[i]); }
        i += 1;
    }
    m.n += room;
    check_vec::<T, L, A, D, M>(v, &m, raw);
}

// ---------------------------------------------------------------------------------------------------------------
// FlatString: model, mapping, state check, operations (A = ALIGN = DATA_OFFSET = size of L)
// ---------------------------------------------------------------------------------------------------------------

/// ordinary String with a fixed capacity: first `n` bytes of `by` are the UTF-8 contents
#[derive(Clone, Copy)]
struct SModel<const M: usize> {
    n: usize,
    cap: usize,
    by: [u8; M],
}

impl<const M: usize> SModel<M> {
    fn of<L: Len>(v: &FlatString<L>) -> Self {
        let n = v.len();
        let cap = v.capacity();
        assert!(n <= cap && cap <= M, "C11: len > capacity in a validated value (or harness model array too small)");
        let s = v.as_str().as_bytes();
        assert!(s.len() == n, "C11: as_str().len() != len()");
        let mut by = [0u8; M];
        let mut i = 0;
        while i < M {
            if i < n { by[i] = s[i]; }
            i += 1;
        }
        SModel { n, cap, by }
    }
    /// String::push_str when it fits
    fn append(&mut self, s: &[u8], k: usize) {
        let mut i = 0;
        while i < 8 {
            if i < k { self.by[self.n + i] = s[i]; }
            i += 1;
        }
        self.n += k;
    }
}

fn map_str<'a, L: Len, const A: usize, const N: usize>() -> Option<(&'a mut FlatString<L>, Raw)> {
    let (len, off) = any_len_off(N, A);
    kani::assume(off == 0);
    let b = sym_exact::<N>(len, A);
    let raw = (b.as_ptr(), b.len());
    match FlatString::<L>::from_mut_bytes(b) {
        Ok(v) => Some((v, raw)),
        Err(_) => None,
    }
}

fn check_str<L: Len, const A: usize, const M: usize>(v: &FlatString<L>, m: &SModel<M>, raw: Raw) {
    let n = m.n;
    assert!(v.len() == n, "C11: len differs from the String model");
    assert!(v.capacity() == m.cap, "C11: capacity changed");
    assert!(v.remaining() == m.cap - n, "C11: remaining() != capacity - len");
    assert!(v.is_empty() == (n == 0), "C11: is_empty");
    assert!(v.is_full() == (n == m.cap), "C11: is_full");
    let s = v.as_str().as_bytes();
    assert!(s.len() == n, "C11: as_str().len()");
    let mut i = 0;
    while i < M {
        if i < n { assert!(s[i] == m.by[i], "C11: contents differ from the String model"); }
        i += 1;
    }
    assert!(v.size() == ceil_to(A + n, A), "C11: size() != ceil(DATA_OFFSET + len, ALIGN)");
    let ab = v.as_bytes();
    let r = FlatString::<L>::from_bytes(ab);
    assert!(r.is_ok(), "C11: as_bytes() of the value does not validate");
    if let Ok(w) = r {
        assert!(w.len() == n, "C11: as_bytes() re-maps to a different len");
        assert!(w.capacity() == m.cap, "C11: as_bytes() re-maps to a different capacity");
        let ws = w.as_str().as_bytes();
        let mut i = 0;
        while i < M {
            if i < n && i < ws.len() { assert!(ws[i] == m.by[i], "C11: as_bytes() re-maps to different contents"); }
            i += 1;
        }
    }
    // (for FlatString as_bytes() is the mapped buffer floored to ALIGN, so the re-map above already has to reproduce
    // the capacity; the separate re-map of the original buffer done for FlatVec is dropped here because each UTF-8
    // validation costs CBMC minutes)
    let _ = raw;
}

/// every string of 0..=2 chars (0..=8 bytes): (bytes, byte length).  Built with the std encoder; the
/// concatenation of two well-formed encodings is well-formed, so `from_utf8_unchecked` on the prefix is sound.
fn any_str2() -> ([u8; 8], usize) {
    let mut buf = [0u8; 8];
    let nc: u8 = kani::any();
    kani::assume(nc <= 2);
    let mut k = 0;
    if nc >= 1 {
        let c: char = kani::any();
        k += c.encode_utf8(&mut buf[k..]).len();
    }
    if nc >= 2 {
        let c: char = kani::any();
        k += c.encode_utf8(&mut buf[k..]).len();
    }
    (buf, k)
}

/// accessors of a freshly mapped string == raw bytes
fn s_state<L: Len, const A: usize, const N: usize, const M: usize>() {
    let (len, off) = any_len_off(N, A);
    kani::assume(off == 0);
    let b = sym_exact::<N>(len, A);
    let raw = (b.as_ptr(), b.len());
    let mut rn = 0;
    let mut cap = 0;
    let mut by = [0u8; M];
    let mut shape_ok = len >= A;
    if shape_ok {
        rn = L::rd_len(b);
        cap = ref_capacity(len, A, A, 1, L::LMAX);
        shape_ok = rn <= cap;
        let mut i = 0;
        while i < M {
            if shape_ok && i < rn { by[i] = b[A + i]; }
            i += 1;
        }
    }
    let r = FlatString::<L>::from_mut_bytes(b);
    if !shape_ok { assert!(r.is_err(), "C11: a string whose length exceeds the capacity is accepted"); }
    if let Ok(v) = r {
        kani::cover!(rn == cap && cap > 1, "full string");
        kani::cover!(rn > 0 && by[0] >= 0x80, "non-ASCII contents");
        let m = SModel::<M> { n: rn, cap, by };
        check_str::<L, A, M>(v, &m, raw);
    }
}

fn s_push<L: Len, const A: usize, const N: usize, const M: usize>() {
    let Some((v, raw)) = map_str::<L, A, N>() else { return };
    let mut m = SModel::<M>::of(v);
    let c: char = kani::any();
    let (e, k) = enc_utf8(c);
    let r = v.push(c);
    if k <= m.cap - m.n {
        kani::cover!(k == 4, "4-byte char accepted");
        kani::cover!(k == 1, "ASCII char accepted");
        assert!(r.is_ok(), "C11: push(char) refused although the encoding fits");
        m.append(&e, k);
    } else {
        kani::cover!(m.n < m.cap, "push(char) refused although some bytes are free");
        // C13: nothing is written (checked below against the unchanged model)
        assert!(r.is_err(), "C11: push(char) accepted beyond the capacity");
    }
    check_str::<L, A, M>(v, &m, raw);
}

fn s_push_str<L: Len, const A: usize, const N: usize, const M: usize>() {
    let Some((v, raw)) = map_str::<L, A, N>() else { return };
    let mut m = SModel::<M>::of(v);
    let (buf, k) = any_str2();
    let s = unsafe { core::str::from_utf8_unchecked(&buf[..k]) };
    let r = v.push_str(s);
    if k <= m.cap - m.n {
        kani::cover!(k >= 3, "push_str accepted (>= 3 bytes)");
        kani::cover!(k == 0, "push_str of the empty string");
        assert!(r.is_ok(), "C11: push_str refused although the string fits");
        m.append(&buf, k);
    } else {
        kani::cover!(m.n < m.cap, "push_str refused although a prefix would fit");
        // C13: nothing is written (checked below against the unchanged model)
        assert!(r.is_err(), "C11: push_str accepted beyond the capacity");
    }
    check_str::<L, A, M>(v, &m, raw);
}

fn s_clear<L: Len, const A: usize, const N: usize, const M: usize>() {
    let Some((v, raw)) = map_str::<L, A, N>() else { return };
    let mut m = SModel::<M>::of(v);
    kani::cover!(m.n > 1, "clear of a non-empty string");
    v.clear();
    m.n = 0;
    check_str::<L, A, M>(v, &m, raw);
    assert!(v.as_str() == "", "C11: as_str() after clear is not empty");
}

fn s_eq<L: Len, const A: usize, const N: usize, const M: usize>() {
    let Some((a, _)) = map_str::<L, A, N>() else { return };
    let Some((b, _)) = map_str::<L, A, N>() else { return };
    let ma = SModel::<M>::of(a);
    let mb = SModel::<M>::of(b);
    let mut same = ma.n == mb.n;
    let mut i = 0;
    while i < M {
        if i < ma.n && i < mb.n && ma.by[i] != mb.by[i] { same = false; }
        i += 1;
    }
    let eq = *a == *b;
    assert!(eq == same, "C11: == differs from String equality");
    assert!((a.as_str() == b.as_str()) == same, "C11: as_str() equality differs from String equality");
    kani::cover!(eq && ma.cap != mb.cap && ma.n > 0, "equal contents, different capacities");
    kani::cover!(!eq && ma.n == mb.n, "same length, different contents");
}

/// C13: a refused push(char) writes nothing (also when some bytes of the encoding would fit); a later fitting
/// push_str lands right behind the old contents
fn s13_push_char<L: Len, const A: usize, const N: usize, const M: usize>() {
    let Some((v, raw)) = map_str::<L, A, N>() else { return };
    let mut m = SModel::<M>::of(v);
    let c: char = kani::any();
    let (_, k) = enc_utf8(c);
    kani::assume(k > m.cap - m.n); // does not fit
    kani::cover!(m.n < m.cap, "refused char, some bytes free");
    let r = v.push(c);
    assert!(r.is_err(), "C13: push(char) accepted a char that does not fit");
    check_str::<L, A, M>(v, &m, raw);
    s13_later::<L, A, M>(v, &mut m);
}

/// C13: a refused push_str writes nothing (also when a prefix would fit); later operations unaffected
fn s13_push_str<L: Len, const A: usize, const N: usize, const M: usize>() {
    let Some((v, raw)) = map_str::<L, A, N>() else { return };
    let mut m = SModel::<M>::of(v);
    let (buf, k) = any_str2();
    kani::assume(k > m.cap - m.n); // does not fit
    kani::cover!(m.n < m.cap, "refused str, some bytes free");
    let s = unsafe { core::str::from_utf8_unchecked(&buf[..k]) };
    let r = v.push_str(s);
    assert!(r.is_err(), "C13: push_str accepted a string that does not fit");
    check_str::<L, A, M>(v, &m, raw);
    s13_later::<L, A, M>(v, &mut m);
}

/// later operation after a refusal: an ASCII string filling the room exactly is accepted and lands behind the old
/// contents (observers only; the full check with re-validation was done right after the refused call)
fn s13_later<L: Len, const A: usize, const M: usize>(v: &mut FlatString<L>, m: &mut SModel<M>) {
    let room = m.cap - m.n;
    let fill = [b'a'; 8];
    let r2 = v.push_str(unsafe { core::str::from_utf8_unchecked(&fill[..room]) });
    assert!(r2.is_ok(), "C13: fitting push_str refused after a refused push");
    m.append(&fill, room);
    assert!(v.len() == m.n && v.is_full(), "C13: len after the later push_str");
    let s = v.as_str().as_bytes();
    assert!(s.len() == m.n, "C13: as_str().len() after the later push_str");
    let mut i = 0;
    while i < M {
        if i < m.n { assert!(s[i] == m.by[i], "C13: contents after the later push_str"); }
        i += 1;
    }
}

// ---------------------------------------------------------------------------------------------------------------
// instantiations.  vh!(harness, op, T, L, ALIGN, DATA_OFFSET, N (BOUNDED: buffer length <= N), M (>= capacity), unwind)
// ---------------------------------------------------------------------------------------------------------------

macro_rules! vh {
    ($name:ident, $op:ident, $T:ty, $L:ty, $A:literal, $D:literal, $N:literal, $M:literal, $U:literal) => {
        #[kani::proof]
        #[kani::unwind($U)]
        fn $name() {
            // BOUNDED: buffer length <= $N bytes (capacity <= $M items)
            $op::<$T, $L, $A, $D, $N, $M>();
        }
    };
}

/// sh!(harness, op, L, ALIGN (= DATA_OFFSET), N (BOUNDED: buffer length <= N), M (>= capacity), unwind)
macro_rules! sh {
    ($name:ident, $op:ident, $L:ty, $A:literal, $N:literal, $M:literal, $U:literal) => {
        #[kani::proof]
        #[kani::unwind($U)]
        fn $name() {
            // BOUNDED: buffer length <= $N bytes (capacity <= $N - $A bytes)
            $op::<$L, $A, $N, $M>();
        }
    };
}

// FlatVec<u8,u16>: ALIGN 2, data at 2, N = 10 -> capacity <= 8
vh!(c11_vec_u8_u16_state, op_state, u8, u16, 2, 2, 10, 8, 12);
vh!(c11_vec_u8_u16_push, op_push, u8, u16, 2, 2, 10, 8, 12);
vh!(c11_vec_u8_u16_pop, op_pop, u8, u16, 2, 2, 10, 8, 12);
vh!(c11_vec_u8_u16_push_slice, op_push_slice, u8, u16, 2, 2, 10, 8, 12);
vh!(c11_vec_u8_u16_extend, op_extend, u8, u16, 2, 2, 10, 8, 12);
vh!(c11_vec_u8_u16_truncate, op_truncate, u8, u16, 2, 2, 10, 8, 12);
vh!(c11_vec_u8_u16_clear, op_clear, u8, u16, 2, 2, 10, 8, 12);
vh!(c11_vec_u8_u16_remove, op_remove, u8, u16, 2, 2, 10, 8, 12);
vh!(c11_vec_u8_u16_swap_remove, op_swap_remove, u8, u16, 2, 2, 10, 8, 12);
vh!(c11_vec_u8_u16_resize, op_resize, u8, u16, 2, 2, 10, 8, 12);
vh!(c11_vec_u8_u16_write, op_write, u8, u16, 2, 2, 10, 8, 12);
vh!(c11_vec_u8_u16_eq, op_eq, u8, u16, 2, 2, 8, 6, 10);
vh!(c13_vec_u8_u16_push, op13_push, u8, u16, 2, 2, 10, 8, 12);
vh!(c13_vec_u8_u16_push_slice, op13_push_slice, u8, u16, 2, 2, 10, 8, 12);

// FlatVec<u16,u8>: ALIGN 2, data at 2 (1 padding byte behind the length), N = 10 -> capacity <= 4
vh!(c11_vec_u16_u8_state, op_state, u16, u8, 2, 2, 10, 4, 12);
vh!(c11_vec_u16_u8_push, op_push, u16, u8, 2, 2, 10, 4, 12);
vh!(c11_vec_u16_u8_pop, op_pop, u16, u8, 2, 2, 10, 4, 12);
vh!(c11_vec_u16_u8_push_slice, op_push_slice, u16, u8, 2, 2, 10, 4, 12);
vh!(c11_vec_u16_u8_remove, op_remove, u16, u8, 2, 2, 10, 4, 12);
vh!(c11_vec_u16_u8_resize, op_resize, u16, u8, 2, 2, 10, 4, 12);

// FlatVec<u32,u8>: ALIGN 4, data at 4 (3 padding bytes behind the length), N = 16 -> capacity <= 3
vh!(c11_vec_u32_u8_state, op_state, u32, u8, 4, 4, 16, 3, 18);
vh!(c11_vec_u32_u8_push, op_push, u32, u8, 4, 4, 16, 3, 18);
vh!(c11_vec_u32_u8_push_slice, op_push_slice, u32, u8, 4, 4, 16, 3, 18);
vh!(c11_vec_u32_u8_remove, op_remove, u32, u8, 4, 4, 16, 3, 18);
vh!(c11_vec_u32_u8_truncate, op_truncate, u32, u8, 4, 4, 16, 3, 18);

// FlatVec<[u8;3],u16>: ALIGN 2, data at 2, element size 3 (not a multiple of ALIGN), N = 12 -> capacity <= 3
vh!(c11_vec_a3_u16_state, op_state, [u8; 3], u16, 2, 2, 12, 3, 14);
vh!(c11_vec_a3_u16_push, op_push, [u8; 3], u16, 2, 2, 12, 3, 14);
vh!(c11_vec_a3_u16_pop, op_pop, [u8; 3], u16, 2, 2, 12, 3, 14);
vh!(c11_vec_a3_u16_swap_remove, op_swap_remove, [u8; 3], u16, 2, 2, 12, 3, 14);

// FlatVec<u8, le::U16> (portable length): ALIGN 1, data at 2, N = 9 -> capacity <= 7
vh!(c11_vec_u8_le16_state, op_state, u8, le::U16, 1, 2, 9, 7, 11);
vh!(c11_vec_u8_le16_push, op_push, u8, le::U16, 1, 2, 9, 7, 11);
vh!(c11_vec_u8_le16_push_slice, op_push_slice, u8, le::U16, 1, 2, 9, 7, 11);
vh!(c11_vec_u8_le16_extend, op_extend, u8, le::U16, 1, 2, 9, 7, 11);
vh!(c11_vec_u8_le16_truncate, op_truncate, u8, le::U16, 1, 2, 9, 7, 11);

// FlatVec<u64,u32>: ALIGN 8, data at 8, N = 24 -> capacity <= 2
vh!(c11_vec_u64_u32_state, op_state, u64, u32, 8, 8, 24, 2, 26);
vh!(c11_vec_u64_u32_push, op_push, u64, u32, 8, 8, 24, 2, 26);
vh!(c11_vec_u64_u32_remove, op_remove, u64, u32, 8, 8, 24, 2, 26);
vh!(c13_vec_u64_u32_push_slice, op13_push_slice, u64, u32, 8, 8, 24, 2, 26);

// FlatString<u8>: ALIGN 1, data at 1, N = 5 -> capacity <= 4 (one 4-byte char fits; model array 8)
sh!(c11_str_u8_state, s_state, u8, 1, 5, 8, 10);
sh!(c11_str_u8_push, s_push, u8, 1, 5, 8, 10);
sh!(c11_str_u8_push_str, s_push_str, u8, 1, 5, 8, 10);
sh!(c11_str_u8_clear, s_clear, u8, 1, 5, 8, 10);
sh!(c11_str_u8_eq, s_eq, u8, 1, 5, 8, 10);
sh!(c13_str_u8_push_char, s13_push_char, u8, 1, 5, 8, 10);
sh!(c13_str_u8_push_str, s13_push_str, u8, 1, 5, 8, 10);

// FlatString<u16>: ALIGN 2, data at 2, N = 6 -> capacity <= 4
sh!(c11_str_u16_state, s_state, u16, 2, 6, 8, 10);
sh!(c11_str_u16_push, s_push, u16, 2, 6, 8, 10);
sh!(c11_str_u16_push_str, s_push_str, u16, 2, 6, 8, 10);
sh!(c13_str_u16_push_char, s13_push_char, u16, 2, 6, 8, 10);
sh!(c13_str_u16_push_str, s13_push_str, u16, 2, 6, 8, 10);

/// FlatVec<u8,u8> over a 300-byte buffer: 299 element slots > u8::MAX.  BOUNDED: one buffer size (300), only the
/// length byte symbolic (all 256 values; every one of them is a valid state), data bytes zero.
/// capacity() is min(slots, L::MAX) = 255; push at len 255 is refused ("length type exhausted"), C13 unchanged.
/// Loop-free on purpose (validate() walks up to 255 items: with unwind 258 CBMC did not finish in 600 s): the value
/// is mapped with `from_mut_bytes_unchecked`, which is sound here because u8 items have no invalid bit pattern and
/// every length byte is <= 255 = capacity; validity afterwards is checked by its definition len <= capacity.
#[kani::proof]
#[kani::unwind(4)]
fn c11_vec_u8_u8_cap_above_len_max() {
    let mut buf = [0u8; 300];
    buf[0] = kani::any();
    let n0 = buf[0] as usize;
    let v = unsafe { FlatVec::<u8, u8>::from_mut_bytes_unchecked(&mut buf) };
    assert!(v.len() == n0, "C11: len");
    assert!(v.capacity() == 255, "C11: capacity() != min(slots, L::MAX)");
    assert!(v.remaining() == 255 - n0, "C11: remaining()");
    assert!(v.is_full() == (n0 == 255), "C11: is_full");
    assert!(v.as_bytes().len() == 300, "C11: as_bytes() length");
    assert!(v.size() == 1 + n0, "C11: size()");
    let x: u8 = kani::any();
    let y: u8 = kani::any();
    let slice: bool = kani::any();
    let mut n1 = n0;
    if slice {
        let r = v.push_slice(&[x, y]);
        if n0 + 2 <= 255 {
            kani::cover!(n0 == 253, "push_slice up to the length type's maximum");
            assert!(r.is_ok(), "C11: push_slice refused although it fits");
            n1 = n0 + 2;
            assert!(v.len() == n1 && v.as_slice()[n0] == x && v.as_slice()[n0 + 1] == y, "C11: push_slice result");
        } else {
            kani::cover!(n0 == 254, "push_slice refused: one slot left below L::MAX, 45 bytes free");
            assert!(r.is_err(), "C11: push_slice accepted beyond L::MAX");
        }
    } else {
        let r = v.push(x);
        if n0 < 255 {
            kani::cover!(n0 == 254, "push up to the length type's maximum");
            assert!(r.is_ok(), "C11: push refused although len < capacity");
            n1 = n0 + 1;
            assert!(v.len() == n1 && v.as_slice()[n0] == x, "C11: push result");
        } else {
            kani::cover!(true, "push refused: length type exhausted");
            assert!(r == Err(x), "C13: refused push returns a different item");
        }
    }
    // C11 post-state / C13 unchanged state on refusal (n1 == n0)
    assert!(v.len() == n1, "C13: len changed by a refused operation");
    assert!(v.capacity() == 255, "C11: capacity changed");
    assert!(v.remaining() == 255 - n1, "C11: remaining()");
    assert!(v.size() == 1 + n1, "C13: size() changed by a refused operation");
    assert!(v.as_slice().len() == n1, "C11: as_slice().len()");
    if n1 == n0 && n0 > 0 { assert!(v.as_slice()[n0 - 1] == 0, "C13: items changed by a refused operation"); }
    assert!(v.len() <= v.capacity() && v.as_bytes().len() == 300, "C11: len > capacity after the operation (bytes no longer validate)");
    // later operation behaves as if the refused call had never happened
    if n1 == n0 && n0 > 0 {
        assert!(v.pop() == Some(0), "C13: pop after a refused operation");
        assert!(v.len() == n0 - 1, "C13: len after pop");
    }
}
