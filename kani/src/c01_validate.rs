//! C01 / C02 / C19 -- validation is total, accepts exactly the well-formed encodings, reports content errors at the
//! offending byte.  BOUNDED stand-ins: buffer length <= N (stated per harness), contents/length/offset symbolic.
use crate::corpus::*;
use crate::util::*;
use flatty::error::ErrorKind;
use flatty::portable::Bool;
use flatty::prelude::*;
use flatty::{FlatString, FlatVec, FlexVec};

/// FlatVec<u8,u16>: reference = aligned(2) && len>=2 && n <= floor(len-2, 2)
#[kani::proof]
#[kani::unwind(12)]
fn c01_vec_u8_u16() {
    const N: usize = 10;
    let (len, off) = any_len_off(N, 2);
    let b = sym_slice(len, 2, off, N);
    let r = FlatVec::<u8, u16>::validate(b);
    // reference
    let exp: Result<(), ErrorKind> = if off != 0 {
        Err(ErrorKind::BadAlign)
    } else if len < 2 {
        Err(ErrorKind::InsufficientSize)
    } else {
        let n = rd_u16(b, 0) as usize;
        let cap = (len - 2) / 2 * 2;
        if n > cap { Err(ErrorKind::InsufficientSize) } else { Ok(()) }
    };
    match (&r, &exp) {
        (Ok(()), Ok(())) => {}
        (Err(e), Err(k)) => assert!(e.kind == *k, "C02,C06: error kind differs from the reference decoder"),
        _ => assert!(false, "C02: acceptance differs from the reference decoder"),
    }
    if r.is_ok() {
        let v = FlatVec::<u8, u16>::from_bytes(b).unwrap();
        let n = rd_u16(b, 0) as usize;
        assert!(v.len() == n, "C02: len() differs from the reference decoding");
        assert!(v.len() <= v.capacity(), "C02: len > capacity in an accepted view");
        assert!(v.capacity() == (len - 2) / 2 * 2, "C02,C04: capacity differs from the reference");
        assert!(v.size() <= len, "C05,C10: size() exceeds the mapped bytes");
        assert!(v.as_bytes().len() <= len, "C02,C04: as_bytes() longer than the given slice");
        let s = v.as_slice();
        let mut i = 0;
        while i < N {
            if i < n { assert!(s[i] == b[2 + i], "C02: element differs from the reference decoding"); }
            i += 1;
        }
        // the value's own bytes validate again
        assert!(FlatVec::<u8, u16>::validate(v.as_bytes()).is_ok(), "C02: the value's own bytes do not validate again");
    }
}

/// FlatVec<Bool,u8>: content constraint on the first n elements; C19: error position = offset of the bad byte
#[kani::proof]
#[kani::unwind(10)]
fn c01_vec_bool_u8() {
    const N: usize = 7;
    let (len, off) = any_len_off(N, 1);
    let b = sym_slice(len, 1, off, N);
    let r = FlatVec::<Bool, u8>::validate(b);
    if len < 1 {
        assert!(matches!(r, Err(ref e) if e.kind == ErrorKind::InsufficientSize), "C02,C06: short input must be InsufficientSize");
        return;
    }
    let n = b[0] as usize;
    let cap = len - 1;
    if n > cap {
        assert!(matches!(r, Err(ref e) if e.kind == ErrorKind::InsufficientSize), "C02,C06: len > capacity must be InsufficientSize");
        return;
    }
    // first offending byte
    let mut bad: Option<usize> = None;
    let mut i = 0;
    while i < N {
        if i < n && bad.is_none() && b[1 + i] > 1 { bad = Some(1 + i); }
        i += 1;
    }
    match bad {
        None => assert!(r.is_ok(), "C02: well-formed encoding rejected"),
        Some(p) => {
            assert!(r.is_err(), "C02: Bool other than 0/1 accepted");
            let e = r.unwrap_err();
            assert!(e.kind == ErrorKind::InvalidData, "C02: wrong error kind for a bad Bool");
            // C19: position of an offending byte
            assert!(e.pos < len && e.pos >= 1 && e.pos <= n, "C19: error position is not an offending byte");
            assert!(b[e.pos] > 1, "C19: error position is not an offending byte");
            let _ = p;
        }
    }
}

/// FlexVec<u8,u8>: totality on every byte string (C01), acceptance == reference chain walk (C02)
#[kani::proof]
#[kani::unwind(10)]
fn c01_flex_u8_u8() {
    const N: usize = 6;
    let (len, off) = any_len_off(N, 1);
    let b = sym_slice(len, 1, off, N);
    let r = FlexVec::<u8, u8>::validate(b);
    // reference walk: slot = 1 byte; 0 terminates; 255 = last item owns the rest; otherwise offset>=2 (slot+1 byte payload)
    let mut pos = 0usize;
    let mut exp_ok = true;
    let mut done = false;
    let mut k = 0;
    while k < N + 1 {
        if !done {
            if pos >= len { exp_ok = false; done = true; }
            else {
                let o = b[pos] as usize;
                if o == 0 { done = true; }
                else if o == 255 { if len - pos < 2 { exp_ok = false; } done = true; }
                else if o < 2 || pos + o > len { exp_ok = false; done = true; }
                else { pos += o; }
            }
        }
        k += 1;
    }
    assert!(r.is_ok() == exp_ok, "C02: FlexVec acceptance differs from the reference chain walk");
    if let Err(e) = r { assert!(e.kind == ErrorKind::InsufficientSize, "C02,C06: FlexVec<u8,u8> can only fail with InsufficientSize"); }
}

/// unsized enum with a FlatVec tail: totality + acceptance + consistent view (len <= capacity)
#[kani::proof]
#[kani::unwind(14)]
fn c01_uenum() {
    const N: usize = 13;
    let (len, off) = any_len_off(N, 4);
    let b = sym_slice(len, 4, off, N);
    let r = UEnum::from_bytes(b);
    if off != 0 { assert!(matches!(r, Err(ref e) if e.kind == ErrorKind::BadAlign), "C02: misaligned slice must be BadAlign"); return; }
    if let Ok(v) = r {
        assert!(core::mem::size_of_val(v) <= len, "C04: mapped value claims more bytes than the slice");
        assert!(v.size() <= len, "C05,C10: size() exceeds the mapped bytes");
        match v.as_ref() {
            UEnumRef::A => assert!(b[0] == 0, "C02: variant differs from the tag byte"),
            UEnumRef::B(x, y) => { assert!(b[0] == 1, "C02: variant differs from the tag byte"); assert!(*x == b[4], "C02,C04: field differs from the reference decoding"); assert!(*y == rd_u16(b, 6), "C02,C04: field differs from the reference decoding"); }
            UEnumRef::C { offset, bytes } => {
                assert!(b[0] == 2, "C02: variant differs from the tag byte");
                assert!(*offset == rd_u32(b, 4), "C02,C04: field differs from the reference decoding");
                assert!(bytes.len() <= bytes.capacity(), "C02: len > capacity in an accepted view");
                assert!(bytes.len() == rd_u16(b, 8) as usize, "C02,C04: field differs from the reference decoding");
            }
        }
    } else {
        let e = r.err().unwrap();
        if len >= 4 && b[0] > 2 { assert!(e.kind == ErrorKind::InvalidEnumTag, "C02: wrong error kind for a bad tag"); assert!(e.pos == 0, "C19: tag error not reported at the tag byte"); }
    }
}

/// unsized struct: totality + the mapped value never claims more bytes than the slice (C04) + view consistency
#[kani::proof]
#[kani::unwind(12)]
fn c01_ustruct() {
    const N: usize = 11;
    let (len, off) = any_len_off(N, 2);
    let b = sym_slice(len, 2, off, N);
    let r = UStruct::from_bytes(b);
    if off != 0 { assert!(matches!(r, Err(ref e) if e.kind == ErrorKind::BadAlign), "C02: misaligned slice must be BadAlign"); return; }
    if len < 6 { assert!(matches!(r, Err(ref e) if e.kind == ErrorKind::InsufficientSize), "C02,C06: short input must be InsufficientSize"); return; }
    let n = rd_u16(b, 4) as usize;
    let cap = (len - 6) / 2 * 2;
    assert!(r.is_ok() == (n <= cap), "C02: acceptance differs from the reference decoder");
    if let Ok(v) = r {
        assert!(core::mem::size_of_val(v) <= len, "C04: mapped value claims more bytes than the slice");
        assert!(v.a == b[0] && v.b == rd_u16(b, 2), "C02,C04: field differs from the reference decoding");
        assert!(v.c.len() == n && v.c.capacity() == cap, "C02,C04: tail differs from the reference decoding");
        assert!(v.size() <= len && v.size() % 2 == 0, "C05,C10: size() exceeds the mapped bytes or is not a multiple of ALIGN");
    }
}

/// padded unsized struct (ALIGN 8, tail ALIGN 2)
#[kani::proof]
#[kani::unwind(20)]
fn c01_upad() {
    const N: usize = 18;
    let (len, off) = any_len_off(N, 8);
    let b = sym_slice(len, 8, off, N);
    let r = UPad::from_bytes(b);
    if off != 0 { assert!(matches!(r, Err(ref e) if e.kind == ErrorKind::BadAlign), "C02: misaligned slice must be BadAlign"); return; }
    if let Ok(v) = r {
        assert!(core::mem::size_of_val(v) <= len, "C04: mapped value claims more bytes than the slice");
        assert!(v.size() <= len, "C05,C10: size() exceeds the mapped bytes");
        assert!(v.v.len() <= v.v.capacity(), "C02: len > capacity in an accepted view");
    }
}

/// sized struct with constrained fields: acceptance == every Bool byte is 0/1; C19 position
#[kani::proof]
#[kani::unwind(14)]
fn c01_sbool() {
    const N: usize = 13;
    let (len, off) = any_len_off(N, 4);
    let b = sym_slice(len, 4, off, N);
    let r = SBool::validate(b);
    if off != 0 { assert!(matches!(r, Err(ref e) if e.kind == ErrorKind::BadAlign), "C02: misaligned slice must be BadAlign"); return; }
    if len < 12 { assert!(matches!(r, Err(ref e) if e.kind == ErrorKind::InsufficientSize), "C02,C06: short input must be InsufficientSize"); return; }
    // layout by the C rule: x@0 (u16), flag@2, arr@3..5, y@8
    let ok = b[2] <= 1 && b[3] <= 1 && b[4] <= 1;
    assert!(r.is_ok() == ok, "C02: acceptance differs from the reference decoder");
    if let Err(e) = r {
        assert!(e.kind == ErrorKind::InvalidData, "C02: wrong error kind for a bad Bool");
        assert!(e.pos >= 2 && e.pos <= 4, "C19: error position is not an offending byte");
        assert!(b[e.pos] > 1, "C19: error position is not an offending byte");
    }
}

/// sized enum and C-like enum: tag range
#[kani::proof]
#[kani::unwind(10)]
fn c01_senum_cenum() {
    const N: usize = 8;
    let (len, off) = any_len_off(N, 2);
    let b = sym_slice(len, 2, off, N);
    let r = SEnum::validate(b);
    if off == 0 && len >= core::mem::size_of::<SEnum>() {
        assert!(r.is_ok() == (b[0] <= 3), "C02: acceptance differs from the tag range");
        if let Err(e) = r { assert!(e.kind == ErrorKind::InvalidEnumTag, "C02: wrong error kind for a bad tag"); assert!(e.pos == 0, "C19: tag error not reported at the tag byte"); }
    } else {
        assert!(r.is_err(), "C02: short or misaligned slice accepted");
    }
    let c = CEnum::validate(b);
    if len >= 1 {
        assert!(c.is_ok() == (b[0] <= 2), "C02: acceptance differs from the tag range");
        if let Err(e) = c { assert!(e.kind == ErrorKind::InvalidEnumTag, "C02: wrong error kind for a bad tag"); assert!(e.pos == 0, "C19: tag error not reported at the tag byte"); }
    } else {
        assert!(matches!(c, Err(ref e) if e.kind == ErrorKind::InsufficientSize), "C02,C06: short input must be InsufficientSize");
    }
}

/// nested: unsized struct with a vector of Bool (content error inside a vector inside a struct): C19
#[kani::proof]
#[kani::unwind(9)]
fn c19_uboolvec() {
    const N: usize = 6;
    let (len, off) = any_len_off(N, 1);
    let b = sym_slice(len, 1, off, N);
    let r = UBoolVec::validate(b);
    if len < 2 { assert!(r.is_err(), "C02: short slice accepted"); return; }
    let n = b[1] as usize;
    if n > len - 2 { assert!(matches!(r, Err(ref e) if e.kind == ErrorKind::InsufficientSize), "C02,C06: len > capacity must be InsufficientSize"); return; }
    let mut any_bad = false;
    let mut i = 0;
    while i < N {
        if i < n && b[2 + i] > 1 { any_bad = true; }
        i += 1;
    }
    assert!(r.is_ok() == !any_bad, "C02: acceptance differs from the reference decoder");
    if let Err(e) = r {
        assert!(e.kind == ErrorKind::InvalidData, "C02: wrong error kind for a bad Bool");
        assert!(e.pos >= 2 && e.pos < 2 + n, "C19: error position is not an offending byte");
        assert!(b[e.pos] > 1, "C19: error position is not an offending byte");
    }
}

/// R3 companion: `Error::offset` (a `mut self` method Verus cannot host) adds the offset and keeps the kind.
/// Loop-free, full domain: complete.
#[kani::proof]
fn c19_error_offset() {
    let pos: usize = kani::any();
    let off: usize = kani::any();
    kani::assume(pos <= usize::MAX - off); // the caller's obligation in the Verus contract
    let k: u8 = kani::any();
    kani::assume(k < 5);
    let kind = match k { 0 => ErrorKind::InsufficientSize, 1 => ErrorKind::BadAlign, 2 => ErrorKind::InvalidEnumTag, 3 => ErrorKind::InvalidData, _ => ErrorKind::Other };
    let e = flatty::Error { kind: kind.clone(), pos }.offset(off);
    assert!(e.pos == pos + off, "C19: Error::offset does not add the offset");
    assert!(e.kind == kind, "C19: Error::offset changes the kind");
}

/// D10: a vector of zero-sized items must not divide by zero while it is validated / mapped (every length, every content)
#[kani::proof]
#[kani::unwind(6)]
fn c01_vec_zst() {
    const N: usize = 4;
    let (len, off) = any_len_off(N, 1);
    let b = sym_slice(len, 1, off, N);
    // BOUNDED: stored length <= 4 (the element loop runs `len` times; zero-sized items always fit)
    if len >= 1 { kani::assume(b[0] <= 4); }
    let r = FlatVec::<(), u8>::from_bytes(b);
    if len < 1 {
        assert!(matches!(r, Err(ref e) if e.kind == ErrorKind::InsufficientSize), "C02,C06: short input must be InsufficientSize");
    } else {
        // zero-sized items take no space: every length fits
        assert!(r.is_ok(), "C02: well-formed encoding rejected");
        let v = r.unwrap();
        assert!(v.len() == b[0] as usize, "C02: len() differs from the reference decoding");
        assert!(v.len() <= v.capacity(), "C02: len > capacity in an accepted view");
        assert!(v.size() <= len, "C05,C10: size() exceeds the mapped bytes");
    }
}

/// FlexVec<Bool,u8>: several items with a content constraint each.  C02: acceptance == reference chain walk with item
/// validation; C19: a content error is reported at the offending byte of the offending ITEM (not a neighbour's).
#[kani::proof]
#[kani::unwind(10)]
fn c19_flex_bool() {
    const N: usize = 7;
    let (len, off) = any_len_off(N, 1);
    let b = sym_slice(len, 1, off, N);
    let r = FlexVec::<Bool, u8>::validate(b);
    // reference walk (slot = 1 byte, payload = 1 Bool + spare bytes)
    let mut pos = 0usize;
    let mut done = false;
    let mut exp_ok = true;
    let mut exp_kind_content = false; // first problem is a bad Bool
    let mut exp_pos = 0usize;
    let mut k = 0;
    while k < N + 1 {
        if !done {
            if pos >= len { exp_ok = false; done = true; }
            else {
                let o = b[pos] as usize;
                if o == 0 { done = true; }
                else {
                    let last = o == 255;
                    let end = if last { len } else { pos + o };
                    if !last && end > len { exp_ok = false; done = true; }
                    else if end < pos + 2 { exp_ok = false; done = true; } // no room for the Bool
                    else if b[pos + 1] > 1 { exp_ok = false; exp_kind_content = true; exp_pos = pos + 1; done = true; }
                    else if last { done = true; }
                    else { pos = end; }
                }
            }
        }
        k += 1;
    }
    assert!(r.is_ok() == exp_ok, "C02: FlexVec<Bool,u8> acceptance differs from the reference chain walk");
    if let Err(e) = r {
        if exp_kind_content {
            assert!(e.kind == ErrorKind::InvalidData, "C02: wrong error kind for a bad Bool inside a FlexVec item");
            assert!(e.pos == exp_pos, "C19: error position is not the offending byte of the offending item");
        } else {
            assert!(e.kind == ErrorKind::InsufficientSize, "C02,C06: a short chain must be InsufficientSize");
        }
    }
}

/// independent UTF-8 reference (RFC 3629 table): index of the first byte of the first ill-formed sequence in s[..n], or n
fn utf8_valid_prefix(s: &[u8], n: usize, max: usize) -> usize {
    let mut i = 0usize;
    let mut k = 0;
    let mut bad = n;
    let mut stop = false;
    while k < max {
        if !stop && i < n {
            let b = s[i];
            let (need, lo, hi): (usize, u8, u8) = if b < 0x80 { (0, 0, 0) }
                else if b >= 0xC2 && b <= 0xDF { (1, 0x80, 0xBF) }
                else if b == 0xE0 { (2, 0xA0, 0xBF) }
                else if (b >= 0xE1 && b <= 0xEC) || b == 0xEE || b == 0xEF { (2, 0x80, 0xBF) }
                else if b == 0xED { (2, 0x80, 0x9F) }
                else if b == 0xF0 { (3, 0x90, 0xBF) }
                else if b >= 0xF1 && b <= 0xF3 { (3, 0x80, 0xBF) }
                else if b == 0xF4 { (3, 0x80, 0x8F) }
                else { (9, 0, 0) };
            if need == 9 || i + need >= n {
                // invalid lead byte, or the sequence is cut off by the end of the string
                bad = i;
                stop = true;
            }
            if !stop {
                let mut ok = true;
                if need >= 1 { let c = s[i + 1]; if c < lo || c > hi { ok = false; } }
                if need >= 2 { let c = s[i + 2]; if c < 0x80 || c > 0xBF { ok = false; } }
                if need >= 3 { let c = s[i + 3]; if c < 0x80 || c > 0xBF { ok = false; } }
                if !ok { bad = i; stop = true; } else { i += need + 1; }
            }
        }
        k += 1;
    }
    bad
}

/// FlatString<u8>: C02 acceptance == (len <= capacity and the first len bytes are well-formed UTF-8, whatever follows them);
/// C19: the error position lies in the first ill-formed sequence
#[kani::proof]
#[kani::unwind(8)]
fn c02_string_u8() {
    const N: usize = 5; // BOUNDED: length byte + 4 data bytes (from_utf8 is expensive in CBMC)
    // a sub-slice of a fixed symbolic array (cheaper for CBMC than a heap object of symbolic size; out-of-slice accesses
    // of the string validator are covered by the C01 harnesses)
    let backing: [u8; N] = kani::any();
    let len: usize = kani::any();
    kani::assume(len <= N);
    let b = &backing[..len];
    let r = FlatString::<u8>::validate(b);
    if len < 1 { assert!(matches!(r, Err(ref e) if e.kind == ErrorKind::InsufficientSize), "C02,C06: short input must be InsufficientSize"); return; }
    let n = b[0] as usize;
    if n > len - 1 { assert!(matches!(r, Err(ref e) if e.kind == ErrorKind::InsufficientSize), "C02,C06: len > capacity must be InsufficientSize"); return; }
    let bad = utf8_valid_prefix(&b[1..], n, N);
    assert!(r.is_ok() == (bad == n), "C02: FlatString acceptance differs from the UTF-8 well-formedness of its first len bytes");
    if let Err(e) = r {
        assert!(e.kind == ErrorKind::InvalidData, "C02: wrong error kind for malformed UTF-8");
        assert!(e.pos >= 1 + bad && e.pos <= 1 + bad + 3 && e.pos < 1 + n, "C19: error position is not inside the first ill-formed UTF-8 sequence");
    } else {
        let v = FlatString::<u8>::from_bytes(b).unwrap();
        assert!(v.len() == n && v.len() <= v.capacity(), "C02: len/capacity of the accepted view differ from the reference");
        assert!(v.as_str().len() == n, "C02: as_str() differs from the reference decoding");
    }
}

/// FlexVec with UNSIZED items: validation must apply the item type's own minimum-size gate to every payload (C01: no panic
/// inside the nested FlatVec mapping, no read past the slice), and an accepted image can be walked safely
#[kani::proof]
#[kani::unwind(8)]
fn c01_flex_vec_u8() {
    const N: usize = 5; // BOUNDED: buffer <= 5 bytes
    let (len, off) = any_len_off(N, 1);
    let b = sym_slice(len, 1, off, N);
    if let Ok(v) = FlexVec::<FlatVec<u8, u8>, u8>::from_bytes(b) {
        let mut total = 0usize;
        let mut k = 0;
        for item in v.iter() {
            assert!(item.len() <= item.capacity(), "C02: nested item with len > capacity in an accepted FlexVec");
            let s = item.as_slice();
            if !s.is_empty() { total += s[s.len() - 1] as usize; }
            k += 1;
            if k >= N { break; }
        }
        assert!(v.size() <= len, "C05,C10: size() exceeds the mapped bytes");
        let _ = total;
    }
}

/// FlexVec with sized items wider than the slot's offset type: a payload shorter than the item must be rejected, never read
#[kani::proof]
#[kani::unwind(10)]
fn c01_flex_u32_u8() {
    const N: usize = 9; // BOUNDED: buffer <= 9 bytes (slot 4 + payload 4 + 1)
    let (len, off) = any_len_off(N, 4);
    let b = sym_slice(len, 4, off, N);
    if off == 0 && len >= 4 && b[0] >= 1 && b[0] <= 3 {
        // D34: an offset smaller than the 4-byte slot can never become valid: it must not look like "send more bytes"
        let r = FlexVec::<u32, u8>::validate(b);
        assert!(matches!(r, Err(ref e) if e.kind != ErrorKind::InsufficientSize), "C10,C02: a malformed offset is reported as InsufficientSize");
        assert!(matches!(r, Err(ref e) if e.pos == 0), "C19: a malformed offset is not reported at its slot");
    }
    if let Ok(v) = FlexVec::<u32, u8>::from_bytes(b) {
        let mut k = 0;
        let mut acc = 0u32;
        for item in v.iter() {
            acc ^= *item; // reads 4 bytes of the payload: out of bounds if a short payload was accepted
            k += 1;
            if k >= N { break; }
        }
        let _ = acc;
        assert!(v.size() <= len, "C05,C10: size() exceeds the mapped bytes");
    }
}
