//! C03 / C15 / C18 / C20 (+ the emplace part of C14) -- in-place construction and assignment.
//!
//! C03 "Emplace then read back gives the same value; bytes validate; image is byte-exact"
//! C15 "Emplacement into any buffer either succeeds correctly or reports the right error"
//! C18 "A failed in-place assignment leaves a valid value behind"
//! C20 "default_in_place produces the documented default state for every type"
//!
//! Every harness is a contract harness: assume the precondition, call the REAL public API, assert the postcondition
//! against a reference written from the documented format (C layout rule; enum = tag then payload at the tag size
//! rounded up to the enum's alignment; FlatVec = length at 0, elements at max(size_of L, align_of T); sizes rounded
//! up to the type's alignment; portable scalars = fixed byte order, alignment 1).
//! BOUNDED stand-ins: buffer length <= N (stated per harness); length, misalignment, prior contents ("garbage"),
//! scalar values, variant and container fill are symbolic.
use crate::corpus::*;
use crate::reference::*;
use crate::util::*;
use flatty::error::{Error, ErrorKind};
use flatty::portable::{be, le, Bool};
use flatty::prelude::*;
use flatty::{flat, flat_vec, Emplacer, FlatString, FlatVec, FlatWrap, FlexVec};

// ------------------------------------------------------------------------------------------------------------------
// helpers
// ------------------------------------------------------------------------------------------------------------------

fn is_kind<T>(r: &Result<T, Error>, k: ErrorKind) -> bool {
    matches!(r, Err(e) if e.kind == k)
}

/// C15 three-way outcome: misaligned => BadAlign; too small for the type or the content => InsufficientSize; else Ok
macro_rules! c15_outcome {
    ($r:expr, $off:expr, $len:expr, $need:expr) => {
        if $off != 0 {
            assert!(is_kind(&$r, ErrorKind::BadAlign), "C15: misaligned buffer is not refused with BadAlign");
        } else if $len < $need {
            assert!(is_kind(&$r, ErrorKind::InsufficientSize), "C15: too small buffer is not refused with InsufficientSize");
        } else {
            assert!($r.is_ok(), "C15: aligned buffer that can hold the content is refused");
        }
    };
}

/// symbolic array of K bytes
fn any_bytes<const K: usize>() -> [u8; K] {
    let a: [u8; K] = kani::any();
    a
}

/// copy of the first `len` bytes of `b` (rest 0) -- snapshot of a buffer before an operation
fn snapshot<const K: usize>(b: &[u8]) -> [u8; K] {
    let mut s = [0u8; K];
    let mut i = 0;
    while i < K {
        if i < b.len() { s[i] = b[i]; }
        i += 1;
    }
    s
}

fn bool_byte(x: bool) -> u8 { if x { 1 } else { 0 } }

// ------------------------------------------------------------------------------------------------------------------
// C15 + C03: sized types (the value is its own emplacer)
// ------------------------------------------------------------------------------------------------------------------

/// SBool (align 4, size 12): x@0 u16, flag@2, arr@3..5, y@8 u32.  N = 14: every length 0..=14, every offset 0..4.
#[kani::proof]
#[kani::unwind(16)]
fn c15_sbool_new_in_place() {
    const N: usize = 14;
    let (len, off) = any_len_off(N, 4);
    let b = sym_slice(len, 4, off, N);
    let x: u16 = kani::any();
    let y: u32 = kani::any();
    let (f, a0, a1): (bool, bool, bool) = (kani::any(), kani::any(), kani::any());
    let val = SBool { x, flag: Bool::from(f), arr: [Bool::from(a0), Bool::from(a1)], y };
    let r = SBool::new_in_place(b, val.clone());
    c15_outcome!(r, off, len, 12);
    if let Ok(v) = r {
        // C03: read back
        assert!(*v == val);
        assert!(v.x == x && v.y == y && bool::from(v.flag) == f && bool::from(v.arr[0]) == a0 && bool::from(v.arr[1]) == a1);
        assert!(v.size() == 12);
        // C03: byte image (native layout), non-padding bytes only
        let img = v.as_bytes();
        assert!(img.len() == 12);
        assert!(img[0] == x.to_ne_bytes()[0] && img[1] == x.to_ne_bytes()[1]);
        assert!(img[2] == bool_byte(f) && img[3] == bool_byte(a0) && img[4] == bool_byte(a1));
        assert!(rd_u32(img, 8) == y);
        // C03: bytes validate
        assert!(SBool::validate(b).is_ok());
    }
}

/// SStruct (align 8, size 24): a@0, b@2, c@4, d@8..24.  N = 26.
#[kani::proof]
#[kani::unwind(28)]
fn c15_sstruct_new_in_place() {
    const N: usize = 26;
    let (len, off) = any_len_off(N, 8);
    let b = sym_slice(len, 8, off, N);
    let val = SStruct { a: kani::any(), b: kani::any(), c: kani::any(), d: [kani::any(), kani::any()] };
    let r = SStruct::new_in_place(b, val.clone());
    c15_outcome!(r, off, len, 24);
    if let Ok(v) = r {
        assert!(*v == val);
        assert!(v.size() == 24);
        let img = v.as_bytes();
        assert!(img.len() == 24);
        assert!(img[0] == val.a);
        assert!(rd_u16(img, 2) == val.b);
        assert!(rd_u32(img, 4) == val.c);
        let d0 = val.d[0].to_ne_bytes();
        let d1 = val.d[1].to_ne_bytes();
        let mut i = 0;
        while i < 8 {
            assert!(img[8 + i] == d0[i] && img[16 + i] == d1[i]);
            i += 1;
        }
        assert!(SStruct::validate(b).is_ok());
    }
}

/// SEnum (tag u8 @0, payload @4, align 4, size 8), EVERY variant.  N = 10.
#[kani::proof]
#[kani::unwind(12)]
fn c15_senum_new_in_place() {
    const N: usize = 10;
    let (len, off) = any_len_off(N, 4);
    let b = sym_slice(len, 4, off, N);
    let which: u8 = kani::any();
    kani::assume(which < 4);
    let (p16, p8, p32): (u16, u8, u32) = (kani::any(), kani::any(), kani::any());
    let val = match which {
        0 => SEnum::A,
        1 => SEnum::B(p16, p8),
        2 => SEnum::C { a: p8, b: p16 },
        _ => SEnum::D(p32),
    };
    let r = SEnum::new_in_place(b, val.clone());
    c15_outcome!(r, off, len, 8);
    if let Ok(v) = r {
        assert!(*v == val);
        assert!(v.size() == 8);
        let img = v.as_bytes();
        assert!(img.len() == 8);
        assert!(img[0] == which, "C03: tag byte is not the variant index");
        match which {
            0 => {}
            1 => assert!(rd_u16(img, 4) == p16 && img[6] == p8),
            2 => assert!(img[4] == p8 && rd_u16(img, 6) == p16),
            _ => assert!(rd_u32(img, 4) == p32),
        }
        assert!(SEnum::validate(b).is_ok());
    }
}

/// CEnum (one byte).  N = 3.
#[kani::proof]
#[kani::unwind(5)]
fn c15_cenum_new_in_place() {
    const N: usize = 3;
    let (len, off) = any_len_off(N, 1);
    let b = sym_slice(len, 1, off, N);
    let which: u8 = kani::any();
    kani::assume(which < 3);
    let val = match which { 0 => CEnum::A, 1 => CEnum::B, _ => CEnum::C };
    let r = CEnum::new_in_place(b, val);
    c15_outcome!(r, off, len, 1);
    if let Ok(v) = r {
        assert!(*v == val);
        assert!(v.size() == 1);
        assert!(v.as_bytes().len() == 1 && v.as_bytes()[0] == which);
        assert!(CEnum::validate(b).is_ok());
    }
}

/// PStruct (portable, align 1, size 8): a@0, b@1..3 LITTLE endian, c@3..7 BIG endian, f@7.  N = 10.
#[kani::proof]
#[kani::unwind(12)]
fn c15_pstruct_new_in_place() {
    const N: usize = 10;
    let (len, off) = any_len_off(N, 1);
    let b = sym_slice(len, 1, off, N);
    let (a, x, y, f): (u8, u16, u32, bool) = (kani::any(), kani::any(), kani::any(), kani::any());
    let r = PStruct::new_in_place(b, PStruct { a, b: le::U16::from(x), c: be::U32::from(y), f: Bool::from(f) });
    c15_outcome!(r, off, len, 8);
    if let Ok(v) = r {
        assert!(v.a == a && u16::from(v.b) == x && u32::from(v.c) == y && bool::from(v.f) == f);
        assert!(v.size() == 8);
        let img = v.as_bytes();
        assert!(img.len() == 8);
        assert!(img[0] == a);
        assert!(img[1] == x.to_le_bytes()[0] && img[2] == x.to_le_bytes()[1], "C03: le::U16 is not stored little-endian");
        let yb = y.to_be_bytes();
        assert!(img[3] == yb[0] && img[4] == yb[1] && img[5] == yb[2] && img[6] == yb[3], "C03: be::U32 is not stored big-endian");
        assert!(img[7] == bool_byte(f));
        assert!(PStruct::validate(b).is_ok());
    }
}

// ------------------------------------------------------------------------------------------------------------------
// C15 + C03: unsized struct, generated *Init emplacer with a nested flat_vec! (FromArray) emplacer
// ------------------------------------------------------------------------------------------------------------------

/// UStruct (align 2): a@0, b@2..4, c = FlatVec<u8,u16> @4: length @4..6, elements @6+i; size = ceil(6 + K, 2).
/// One harness per array length K (the emplacer type FromArray<u8, K> depends on it); N = 11: every length 0..=11 and
/// both offsets; K from empty (0) over full (4 at len 10/11) to more than fits (5).
fn ustruct_from_array<const K: usize>() {
    const N: usize = 11;
    let (len, off) = any_len_off(N, 2);
    let b = sym_slice(len, 2, off, N);
    let (a, bb): (u8, u16) = (kani::any(), kani::any());
    let e: [u8; K] = any_bytes();
    let r = UStruct::new_in_place(b, UStructInit { a, b: bb, c: flatty::vec::FromArray(e) });
    let need = ceil_to(6 + K, 2);
    c15_outcome!(r, off, len, need);
    if let Ok(v) = r {
        assert!(v.a == a && v.b == bb);
        assert!(v.c.len() == K, "C03: vector length differs from the emplaced array");
        assert!(v.c.capacity() == floor_to(len, 2) - 6);
        assert!(v.size() == need, "C03/C05: size() is not the documented size of the content");
        let s = v.c.as_slice();
        let img = v.as_bytes();
        assert!(img.len() == floor_to(len, 2));
        assert!(img[0] == a && rd_u16(img, 2) == bb && rd_u16(img, 4) as usize == K);
        let mut i = 0;
        while i < K {
            assert!(s[i] == e[i], "C03: element read back differs");
            assert!(img[6 + i] == e[i], "C03: element byte image differs");
            i += 1;
        }
        assert!(UStruct::validate(b).is_ok());
    }
}
macro_rules! stamp {
    ($name:ident, $unwind:expr, $body:expr) => {
        #[kani::proof]
        #[kani::unwind($unwind)]
        fn $name() { $body }
    };
}
stamp!(c15_ustruct_from_array_k0, 13, ustruct_from_array::<0>());
stamp!(c15_ustruct_from_array_k1, 13, ustruct_from_array::<1>());
stamp!(c15_ustruct_from_array_k4, 13, ustruct_from_array::<4>());
stamp!(c15_ustruct_from_array_k5, 13, ustruct_from_array::<5>());


#[repr(C, align(8))]
struct Backing<const T: usize>([u8; T]);

fn ustruct_probe2<const K: usize>(b: &mut [u8], len: usize, off: usize) {
    let (a, bb): (u8, u16) = (kani::any(), kani::any());
    let e: [u8; K] = any_bytes();
    let r = UStruct::new_in_place(b, UStructInit { a, b: bb, c: flatty::vec::FromArray(e) });
    let need = ceil_to(6 + K, 2);
    c15_outcome!(r, off, len, need);
    if let Ok(v) = r {
        assert!(v.a == a && v.b == bb);
        assert!(v.c.len() == K, "C03: vector length differs from the emplaced array");
        let s = v.c.as_slice();
        let img = v.as_bytes();
        assert!(img[0] == a && rd_u16(img, 2) == bb && rd_u16(img, 4) as usize == K);
        let mut i = 0;
        while i < K {
            assert!(s[i] == e[i], "C03: element read back differs");
            assert!(img[6 + i] == e[i], "C03: element byte image differs");
            i += 1;
        }
        assert!(UStruct::validate(b).is_ok());
    }
}
stamp!(c15_probe_concrete, 13, { let b = sym_slice(10, 2, 0, 11); ustruct_probe2::<4>(b, 10, 0) });
stamp!(c15_probe_prefix, 13, {
    let mut back = Backing::<16>(kani::any());
    let len: usize = kani::any();
    kani::assume(len <= 11);
    let b = &mut back.0[..len];
    ustruct_probe2::<4>(b, len, 0)
});
stamp!(c15_probe_prefix_off, 13, {
    let mut back = Backing::<16>(kani::any());
    let len: usize = kani::any();
    let off: usize = kani::any();
    kani::assume(len <= 11 && off < 2);
    let b = &mut back.0[off..off + len];
    ustruct_probe2::<4>(b, len, off)
});
