//! C03 / C15 / C18 / C20 (+ the emplace part of C14) -- in-place construction and assignment.
//!
//! C03 "Emplace then read back gives the same value; bytes validate; image is byte-exact"
//! C15 "Emplacement into any buffer either succeeds correctly or reports the right error"
//! C18 "A failed in-place assignment leaves a valid value behind"
//! C20 "default_in_place produces the documented default state for every type"
//! C14 (emplace part) "constructing a value only modifies bytes inside the slice handed to the library"
//!
//! Every harness is a contract harness: assume the precondition, call the REAL public API, assert the postcondition
//! against a reference written from the documented format (C layout rule; enum = tag then payload at the tag size
//! rounded up to the enum's alignment; FlatVec = length at 0, elements at max(size_of L, align_of T); sizes rounded
//! up to the type's alignment; portable scalars = fixed byte order, alignment 1).
//!
//! BOUNDED stand-ins: buffer length <= N (stated per harness); length, misalignment, prior contents ("garbage"),
//! scalar values, variant and container fill are symbolic.
//!
//! Buffer shape.  `with_buf` carves the slice handed to the library out of the MIDDLE of a larger 8-aligned backing
//! array whose every byte is symbolic garbage: slice = backing[8 + off .. 8 + off + len] with symbolic len <= N and
//! symbolic off < ALIGN.  After the call every backing byte outside the slice must be unchanged (C14, second form).
//! (A symbolic-size heap allocation from util::sym_slice makes every WRITE a symbolic-size array update: one
//! emplace harness then needs > 10 GB; the exact-size allocation is therefore used with concrete lengths only, in
//! the c03_exact_* harnesses: C14, first form -- CBMC flags any access past the slice.)
use crate::corpus::*;
use crate::reference::*;
use crate::util::*;
use flatty::error::{Error, ErrorKind};
use flatty::portable::{be, le, Bool};
use flatty::prelude::*;
use flatty::{flat, flat_vec, Emplacer, FlatString, FlatVec, FlatWrap, FlexVec};

// ------------------------------------------------------------------------------------------------------------------
// helpers
// ------------------------------------------------------------------------------------------------------------------

const PRE: usize = 8;

#[repr(C, align(8))]
struct Backing<const T: usize>([u8; T]);

/// Runs `f(slice, len, off)` on a slice of symbolic length `len <= n` that starts `off < align` bytes past an
/// 8-aligned address, in the middle of a T-byte backing array full of symbolic garbage; then checks the canaries.
fn with_buf<const T: usize>(n: usize, align: usize, f: impl FnOnce(&mut [u8], usize, usize)) {
    assert!(align <= 8 && PRE + (align - 1) + n < T, "harness: internal");
    let mut back = Backing::<T>(kani::any());
    let orig = back.0;
    let (len, off) = any_len_off(n, align);
    f(&mut back.0[PRE + off..PRE + off + len], len, off);
    // C14: nothing outside the slice handed to the library was modified
    let mut i = 0;
    while i < T {
        if i < PRE + off || i >= PRE + off + len {
            assert!(back.0[i] == orig[i], "C14: a byte outside the slice handed to the library was modified");
        }
        i += 1;
    }
}

fn is_kind<T>(r: &Result<T, Error>, k: ErrorKind) -> bool {
    matches!(r, Err(e) if e.kind == k)
}

/// C15 three-way outcome: misaligned => BadAlign; too small for the type or the content => InsufficientSize; else Ok
macro_rules! c15_outcome {
    ($r:expr, $off:expr, $len:expr, $need:expr) => {
        if $off != 0 {
            assert!(is_kind(&$r, ErrorKind::BadAlign), "C15: misaligned buffer is not refused with BadAlign");
        } else if $len < $need {
            assert!(is_kind(&$r, ErrorKind::InsufficientSize), "C15: too small buffer is not refused with InsufficientSize");
        } else {
            assert!($r.is_ok(), "C15: aligned buffer that can hold the content is refused");
        }
    };
}

macro_rules! stamp {
    ($name:ident, $unwind:expr, $body:expr) => {
        #[kani::proof]
        #[kani::unwind($unwind)]
        fn $name() { $body }
    };
}

fn any_arr<T: kani::Arbitrary, const K: usize>() -> [T; K] {
    kani::any()
}

fn bool_byte(x: bool) -> u8 { if x { 1 } else { 0 } }

fn any_fill(max: usize) -> usize {
    let k: usize = kani::any();
    kani::assume(k <= max);
    k
}

/// dispatch on a symbolic fill `k` (0..=5) to the array-typed emplacer flat_vec![e0, .., e(k-1)]
macro_rules! with_flat_vec {
    ($k:expr, $e:expr, |$fv:ident| $body:expr) => {
        match $k {
            0 => { let $fv = flat_vec![]; $body }
            1 => { let $fv = flat_vec![$e[0]]; $body }
            2 => { let $fv = flat_vec![$e[0], $e[1]]; $body }
            3 => { let $fv = flat_vec![$e[0], $e[1], $e[2]]; $body }
            4 => { let $fv = flat_vec![$e[0], $e[1], $e[2], $e[3]]; $body }
            _ => { let $fv = flat_vec![$e[0], $e[1], $e[2], $e[3], $e[4]]; $body }
        }
    };
}

// ------------------------------------------------------------------------------------------------------------------
// C15 + C03 (+C14): sized types (the value is its own emplacer)
// ------------------------------------------------------------------------------------------------------------------

/// SBool (align 4, size 12): x@0 u16, flag@2, arr@3..5, y@8 u32.  N = 14: every length 0..=14, every offset 0..4.
#[kani::proof]
#[kani::unwind(34)]
fn c15_sbool_new_in_place() {
    with_buf::<32>(14, 4, |b, len, off| {
        let x: u16 = kani::any();
        let y: u32 = kani::any();
        let (f, a0, a1): (bool, bool, bool) = (kani::any(), kani::any(), kani::any());
        let val = SBool { x, flag: Bool::from(f), arr: [Bool::from(a0), Bool::from(a1)], y };
        let r = SBool::new_in_place(b, val.clone());
        c15_outcome!(r, off, len, 12);
        if let Ok(v) = r {
            // C03: read back
            assert!(*v == val, "C03: read-back / byte image / validation");
            assert!(v.x == x && v.y == y && bool::from(v.flag) == f && bool::from(v.arr[0]) == a0 && bool::from(v.arr[1]) == a1, "C03: read-back / byte image / validation");
            assert!(v.size() == 12, "C03: read-back / byte image / validation");
            // C03: byte image (native layout), non-padding bytes only
            let img = v.as_bytes();
            assert!(img.len() == 12, "C03: read-back / byte image / validation");
            assert!(rd_u16(img, 0) == x, "C03: read-back / byte image / validation");
            assert!(img[2] == bool_byte(f) && img[3] == bool_byte(a0) && img[4] == bool_byte(a1), "C03: read-back / byte image / validation");
            assert!(rd_u32(img, 8) == y, "C03: read-back / byte image / validation");
            // C03: bytes validate
            assert!(SBool::validate(b).is_ok(), "C03: read-back / byte image / validation");
        }
    });
}

/// SStruct (align 8, size 24): a@0, b@2, c@4, d@8..24.  N = 26.
#[kani::proof]
#[kani::unwind(50)]
fn c15_sstruct_new_in_place() {
    with_buf::<48>(26, 8, |b, len, off| {
        let val = SStruct { a: kani::any(), b: kani::any(), c: kani::any(), d: [kani::any(), kani::any()] };
        let r = SStruct::new_in_place(b, val.clone());
        c15_outcome!(r, off, len, 24);
        if let Ok(v) = r {
            assert!(*v == val, "C03: read-back / byte image / validation");
            assert!(v.size() == 24, "C03: read-back / byte image / validation");
            let img = v.as_bytes();
            assert!(img.len() == 24, "C03: read-back / byte image / validation");
            assert!(img[0] == val.a, "C03: read-back / byte image / validation");
            assert!(rd_u16(img, 2) == val.b, "C03: read-back / byte image / validation");
            assert!(rd_u32(img, 4) == val.c, "C03: read-back / byte image / validation");
            let d0 = val.d[0].to_ne_bytes();
            let d1 = val.d[1].to_ne_bytes();
            let mut i = 0;
            while i < 8 {
                assert!(img[8 + i] == d0[i] && img[16 + i] == d1[i], "C03: read-back / byte image / validation");
                i += 1;
            }
            assert!(SStruct::validate(b).is_ok(), "C03: read-back / byte image / validation");
        }
    });
}

/// SEnum (tag u8 @0, payload @4, align 4, size 8), EVERY variant.  N = 10.
#[kani::proof]
#[kani::unwind(26)]
fn c15_senum_new_in_place() {
    with_buf::<24>(10, 4, |b, len, off| {
        let which: u8 = kani::any();
        kani::assume(which < 4);
        let (p16, p8, p32): (u16, u8, u32) = (kani::any(), kani::any(), kani::any());
        let val = match which {
            0 => SEnum::A,
            1 => SEnum::B(p16, p8),
            2 => SEnum::C { a: p8, b: p16 },
            _ => SEnum::D(p32),
        };
        let r = SEnum::new_in_place(b, val.clone());
        c15_outcome!(r, off, len, 8);
        if let Ok(v) = r {
            assert!(*v == val, "C03: read-back / byte image / validation");
            assert!(v.size() == 8, "C03: read-back / byte image / validation");
            let img = v.as_bytes();
            assert!(img.len() == 8, "C03: read-back / byte image / validation");
            assert!(img[0] == which, "C03: tag byte is not the variant index");
            match which {
                0 => {}
                1 => assert!(rd_u16(img, 4) == p16 && img[6] == p8, "C03: read-back / byte image / validation"),
                2 => assert!(img[4] == p8 && rd_u16(img, 6) == p16, "C03: read-back / byte image / validation"),
                _ => assert!(rd_u32(img, 4) == p32, "C03: read-back / byte image / validation"),
            }
            assert!(SEnum::validate(b).is_ok(), "C03: read-back / byte image / validation");
        }
    });
}

/// CEnum (one byte).  N = 3.
#[kani::proof]
#[kani::unwind(18)]
fn c15_cenum_new_in_place() {
    with_buf::<16>(3, 1, |b, len, off| {
        let which: u8 = kani::any();
        kani::assume(which < 3);
        let val = match which { 0 => CEnum::A, 1 => CEnum::B, _ => CEnum::C };
        let r = CEnum::new_in_place(b, val);
        c15_outcome!(r, off, len, 1);
        if let Ok(v) = r {
            assert!(*v == val, "C03: read-back / byte image / validation");
            assert!(v.size() == 1, "C03: read-back / byte image / validation");
            assert!(v.as_bytes().len() == 1 && v.as_bytes()[0] == which, "C03: read-back / byte image / validation");
            assert!(CEnum::validate(b).is_ok(), "C03: read-back / byte image / validation");
        }
    });
}

/// PStruct (portable, align 1, size 8): a@0, b@1..3 LITTLE endian, c@3..7 BIG endian, f@7.  N = 10.
#[kani::proof]
#[kani::unwind(26)]
fn c15_pstruct_new_in_place() {
    with_buf::<24>(10, 1, |b, len, off| {
        let (a, x, y, f): (u8, u16, u32, bool) = (kani::any(), kani::any(), kani::any(), kani::any());
        let r = PStruct::new_in_place(b, PStruct { a, b: le::U16::from(x), c: be::U32::from(y), f: Bool::from(f) });
        c15_outcome!(r, off, len, 8);
        if let Ok(v) = r {
            assert!(v.a == a && u16::from(v.b) == x && u32::from(v.c) == y && bool::from(v.f) == f, "C03: read-back / byte image / validation");
            assert!(v.size() == 8, "C03: read-back / byte image / validation");
            let img = v.as_bytes();
            assert!(img.len() == 8, "C03: read-back / byte image / validation");
            assert!(img[0] == a, "C03: read-back / byte image / validation");
            assert!(img[1] == x.to_le_bytes()[0] && img[2] == x.to_le_bytes()[1], "C03: le::U16 is not stored little-endian");
            let yb = y.to_be_bytes();
            assert!(img[3] == yb[0] && img[4] == yb[1] && img[5] == yb[2] && img[6] == yb[3], "C03: be::U32 is not stored big-endian");
            assert!(img[7] == bool_byte(f), "C03: read-back / byte image / validation");
            assert!(PStruct::validate(b).is_ok(), "C03: read-back / byte image / validation");
        }
    });
}

// ------------------------------------------------------------------------------------------------------------------
// C15 + C03 (+C14): unsized structs, generated *Init emplacer with a nested flat_vec! (FromArray) emplacer
// ------------------------------------------------------------------------------------------------------------------

/// UStruct (align 2): a@0, b@2..4, c = FlatVec<u8,u16> @4: length @4..6, elements @6+i; size = ceil(6 + k, 2).
/// N = 11 (capacity 0..=4), fill k in 0..=5: from empty over full to more than fits.
#[kani::proof]
#[kani::unwind(30)]
fn c15_ustruct_new_in_place() {
    with_buf::<28>(11, 2, |b, len, off| {
        let (a, bb): (u8, u16) = (kani::any(), kani::any());
        let e: [u8; 5] = any_arr();
        let k = any_fill(5);
        let r = with_flat_vec!(k, e, |fv| UStruct::new_in_place(b, UStructInit { a, b: bb, c: fv }));
        let need = ceil_to(6 + k, 2);
        c15_outcome!(r, off, len, need);
        if let Ok(v) = r {
            assert!(v.a == a && v.b == bb, "C03: read-back / byte image / validation");
            assert!(v.c.len() == k, "C03: vector length differs from the emplaced array");
            assert!(v.c.capacity() == floor_to(len, 2) - 6, "C03: read-back / byte image / validation");
            assert!(v.size() == need, "C03/C05: size() is not the documented size of the content");
            let s = v.c.as_slice();
            let img = v.as_bytes();
            assert!(img.len() == floor_to(len, 2), "C03: read-back / byte image / validation");
            assert!(img[0] == a && rd_u16(img, 2) == bb && rd_u16(img, 4) as usize == k, "C03: read-back / byte image / validation");
            let mut i = 0;
            while i < 5 {
                if i < k {
                    assert!(s[i] == e[i], "C03: element read back differs");
                    assert!(img[6 + i] == e[i], "C03: element byte image differs");
                }
                i += 1;
            }
            assert!(UStruct::validate(b).is_ok(), "C03: read-back / byte image / validation");
        }
    });
}

/// UPad (align 8, trailing padding): a u64 @0..8, v = FlatVec<u8,u16> @8: length @8..10, elements @10+i;
/// size = ceil(10 + k, 8).  N = 18 (lengths 16..=18 hold up to 6 elements); fills 0, 1, 6 (full), 7 (too many).
#[kani::proof]
#[kani::unwind(42)]
fn c15_upad_new_in_place() {
    with_buf::<40>(18, 8, |b, len, off| {
        let a: u64 = kani::any();
        let e: [u8; 7] = any_arr();
        let sel: u8 = kani::any();
        let (k, r) = match sel {
            0 => (0, UPad::new_in_place(b, UPadInit { a, v: flat_vec![] })),
            1 => (1, UPad::new_in_place(b, UPadInit { a, v: flat_vec![e[0]] })),
            2 => (6, UPad::new_in_place(b, UPadInit { a, v: flat_vec![e[0], e[1], e[2], e[3], e[4], e[5]] })),
            _ => (7, UPad::new_in_place(b, UPadInit { a, v: flatty::vec::FromArray(e) })),
        };
        let need = ceil_to(10 + k, 8);
        c15_outcome!(r, off, len, need);
        if let Ok(v) = r {
            assert!(v.a == a, "C03: read-back / byte image / validation");
            assert!(v.v.len() == k, "C03: read-back / byte image / validation");
            assert!(v.v.capacity() == floor_to(len, 8) - 10, "C03: read-back / byte image / validation");
            assert!(v.size() == need, "C03/C05: size() is not the documented (padded) size of the content");
            let s = v.v.as_slice();
            let img = v.as_bytes();
            assert!(img.len() == floor_to(len, 8), "C03: read-back / byte image / validation");
            let ab = a.to_ne_bytes();
            let mut i = 0;
            while i < 8 {
                assert!(img[i] == ab[i], "C03: read-back / byte image / validation");
                i += 1;
            }
            assert!(rd_u16(img, 8) as usize == k, "C03: read-back / byte image / validation");
            let mut i = 0;
            while i < 7 {
                if i < k { assert!(s[i] == e[i] && img[10 + i] == e[i], "C03: read-back / byte image / validation"); }
                i += 1;
            }
            assert!(UPad::validate(b).is_ok(), "C03: read-back / byte image / validation");
        }
    });
}

/// PUStruct (portable, align 1): a le::U16 @0..2, b = FlatVec<be::U16, le::U16> @2: length @2..4 LITTLE endian,
/// element i @4+2i BIG endian; size = 4 + 2k.  N = 11 (capacity 0..=3), fill 0..=4.
#[kani::proof]
#[kani::unwind(30)]
fn c15_pustruct_new_in_place() {
    with_buf::<28>(11, 1, |b, len, off| {
        let a: u16 = kani::any();
        let x: [u16; 5] = any_arr();
        let e = [be::U16::from(x[0]), be::U16::from(x[1]), be::U16::from(x[2]), be::U16::from(x[3]), be::U16::from(x[4])];
        let k = any_fill(4);
        let r = with_flat_vec!(k, e, |fv| PUStruct::new_in_place(b, PUStructInit { a: le::U16::from(a), b: fv }));
        let need = 4 + 2 * k;
        c15_outcome!(r, off, len, need);
        if let Ok(v) = r {
            assert!(u16::from(v.a) == a, "C03: read-back / byte image / validation");
            assert!(v.b.len() == k && v.b.capacity() == (len - 4) / 2, "C03: read-back / byte image / validation");
            assert!(v.size() == need, "C03: read-back / byte image / validation");
            let s = v.b.as_slice();
            let img = v.as_bytes();
            assert!(img[0] == a.to_le_bytes()[0] && img[1] == a.to_le_bytes()[1], "C03: le::U16 field is not little-endian");
            assert!(img[2] == k as u8 && img[3] == 0, "C03: le::U16 vector length is not little-endian");
            let mut i = 0;
            while i < 4 {
                if i < k {
                    assert!(u16::from(s[i]) == x[i], "C03: read-back / byte image / validation");
                    assert!(img[4 + 2 * i] == x[i].to_be_bytes()[0] && img[5 + 2 * i] == x[i].to_be_bytes()[1], "C03: be::U16 element is not big-endian");
                }
                i += 1;
            }
            assert!(PUStruct::validate(b).is_ok(), "C03: read-back / byte image / validation");
        }
    });
}

// ------------------------------------------------------------------------------------------------------------------
// C15 + C03 (+C14): unsized enums, every variant (generated *InitVariant emplacers)
// ------------------------------------------------------------------------------------------------------------------

/// UEnum (align 4): tag u8 @0, payload @4.  A: size 4.  B(u8 @4, u16 @6..8): size 8.  N = 10.
#[kani::proof]
#[kani::unwind(30)]
fn c15_uenum_ab_new_in_place() {
    with_buf::<28>(10, 4, |b, len, off| {
        let (x, y): (u8, u16) = (kani::any(), kani::any());
        let is_b: bool = kani::any();
        let r = if is_b { UEnum::new_in_place(b, UEnumInitB(x, y)) } else { UEnum::new_in_place(b, UEnumInitA) };
        let need = if is_b { 8 } else { 4 };
        c15_outcome!(r, off, len, need);
        if let Ok(v) = r {
            assert!(v.size() == need, "C03: read-back / byte image / validation");
            match v.as_ref() {
                UEnumRef::A => assert!(!is_b, "C03: read-back / byte image / validation"),
                UEnumRef::B(p, q) => assert!(is_b && *p == x && *q == y, "C03: read-back / byte image / validation"),
                _ => panic!("C03: wrong variant read back"),
            }
            let img = v.as_bytes();
            assert!(img[0] == bool_byte(is_b), "C03: tag byte is not the variant index");
            if is_b { assert!(img[4] == x && rd_u16(img, 6) == y, "C03: read-back / byte image / validation"); }
            assert!(UEnum::validate(b).is_ok(), "C03: read-back / byte image / validation");
        }
    });
}

/// UEnum::C { offset: u32 @4..8, bytes: FlatVec<u8,u16> @8: length @8..10, elements @10+i }: size = ceil(10 + k, 4).
/// N = 17 (capacity up to 6); fill 0..=5 via flat_vec!, plus 7 (too many for every length).
#[kani::proof]
#[kani::unwind(38)]
fn c15_uenum_c_new_in_place() {
    with_buf::<36>(17, 4, |b, len, off| {
        let offset: u32 = kani::any();
        let e: [u8; 7] = any_arr();
        let k: usize = kani::any();
        kani::assume(k <= 5 || k == 7);
        let r = if k == 7 {
            UEnum::new_in_place(b, UEnumInitC { offset, bytes: flatty::vec::FromArray(e) })
        } else {
            with_flat_vec!(k, e, |fv| UEnum::new_in_place(b, UEnumInitC { offset, bytes: fv }))
        };
        let need = ceil_to(10 + k, 4);
        c15_outcome!(r, off, len, need);
        if let Ok(v) = r {
            assert!(v.size() == need, "C03/C05: size() is not the documented size of the content");
            let img = v.as_bytes();
            assert!(img[0] == 2 && rd_u32(img, 4) == offset && rd_u16(img, 8) as usize == k, "C03: read-back / byte image / validation");
            match v.as_ref() {
                UEnumRef::C { offset: o, bytes } => {
                    assert!(*o == offset && bytes.len() == k, "C03: read-back / byte image / validation");
                    assert!(bytes.capacity() == floor_to(len, 4) - 10, "C03: read-back / byte image / validation");
                    let s = bytes.as_slice();
                    let mut i = 0;
                    while i < 5 {
                        if i < k { assert!(s[i] == e[i] && img[10 + i] == e[i], "C03: read-back / byte image / validation"); }
                        i += 1;
                    }
                }
                _ => panic!("C03: wrong variant read back"),
            }
            assert!(UEnum::validate(b).is_ok(), "C03: read-back / byte image / validation");
        }
    });
}

/// PUEnum (portable, align 1): tag @0, payload @1.  A: size 1.  B(be::U16 @1..3, u8 @3): size 4.
/// C(PUStruct @1: a @1..3 LE, length @3..5 LE, element i @5+2i BE): size 5 + 2k -- NESTED generated emplacers.
/// N = 10 (capacity 0..=2), fill 0..=3.
#[kani::proof]
#[kani::unwind(30)]
fn c15_puenum_new_in_place() {
    with_buf::<28>(10, 1, |b, len, off| {
        let which: u8 = kani::any();
        kani::assume(which < 3);
        let (x, y, a): (u16, u8, u16) = (kani::any(), kani::any(), kani::any());
        let w: [u16; 3] = any_arr();
        let e = [be::U16::from(w[0]), be::U16::from(w[1]), be::U16::from(w[2])];
        let k = any_fill(3);
        let r = match which {
            0 => PUEnum::new_in_place(b, PUEnumInitA),
            1 => PUEnum::new_in_place(b, PUEnumInitB(be::U16::from(x), y)),
            _ => match k {
                0 => PUEnum::new_in_place(b, PUEnumInitC(PUStructInit { a: le::U16::from(a), b: flat_vec![] })),
                1 => PUEnum::new_in_place(b, PUEnumInitC(PUStructInit { a: le::U16::from(a), b: flat_vec![e[0]] })),
                2 => PUEnum::new_in_place(b, PUEnumInitC(PUStructInit { a: le::U16::from(a), b: flat_vec![e[0], e[1]] })),
                _ => PUEnum::new_in_place(b, PUEnumInitC(PUStructInit { a: le::U16::from(a), b: flat_vec![e[0], e[1], e[2]] })),
            },
        };
        let need = match which { 0 => 1, 1 => 4, _ => 5 + 2 * k };
        c15_outcome!(r, off, len, need);
        if let Ok(v) = r {
            assert!(v.size() == need, "C03: read-back / byte image / validation");
            let img = v.as_bytes();
            assert!(img[0] == which, "C03: read-back / byte image / validation");
            match v.as_ref() {
                PUEnumRef::A => assert!(which == 0, "C03: read-back / byte image / validation"),
                PUEnumRef::B(p, q) => {
                    assert!(which == 1 && u16::from(*p) == x && *q == y, "C03: read-back / byte image / validation");
                    assert!(img[1] == x.to_be_bytes()[0] && img[2] == x.to_be_bytes()[1] && img[3] == y, "C03: read-back / byte image / validation");
                }
                PUEnumRef::C(s) => {
                    assert!(which == 2 && u16::from(s.a) == a && s.b.len() == k, "C03: read-back / byte image / validation");
                    assert!(img[1] == a.to_le_bytes()[0] && img[2] == a.to_le_bytes()[1], "C03: read-back / byte image / validation");
                    assert!(img[3] == k as u8 && img[4] == 0, "C03: read-back / byte image / validation");
                    let sl = s.b.as_slice();
                    let mut i = 0;
                    while i < 3 {
                        if i < k {
                            assert!(u16::from(sl[i]) == w[i], "C03: read-back / byte image / validation");
                            assert!(img[5 + 2 * i] == w[i].to_be_bytes()[0] && img[6 + 2 * i] == w[i].to_be_bytes()[1], "C03: read-back / byte image / validation");
                        }
                        i += 1;
                    }
                }
            }
            assert!(PUEnum::validate(b).is_ok(), "C03: read-back / byte image / validation");
        }
    });
}

// ------------------------------------------------------------------------------------------------------------------
// C15 + C03 (+C14): containers on their own
// ------------------------------------------------------------------------------------------------------------------

/// FlatVec<u8,u16> via flat_vec!/FromArray: length @0..2, elements @2+i, size = ceil(2 + k, 2).  N = 9.
#[kani::proof]
#[kani::unwind(26)]
fn c15_vec_u8_u16_from_array() {
    with_buf::<24>(9, 2, |b, len, off| {
        let e: [u8; 5] = any_arr();
        let k = any_fill(5);
        let r = with_flat_vec!(k, e, |fv| FlatVec::<u8, u16>::new_in_place(b, fv));
        let need = ceil_to(2 + k, 2);
        c15_outcome!(r, off, len, need);
        if let Ok(v) = r {
            assert!(v.len() == k && v.capacity() == floor_to(len - 2, 2), "C03: read-back / byte image / validation");
            assert!(v.size() == need, "C03: read-back / byte image / validation");
            let s = v.as_slice();
            let img = v.as_bytes();
            assert!(rd_u16(img, 0) as usize == k, "C03: read-back / byte image / validation");
            let mut i = 0;
            while i < 5 {
                if i < k { assert!(s[i] == e[i] && img[2 + i] == e[i], "C03: read-back / byte image / validation"); }
                i += 1;
            }
            assert!(FlatVec::<u8, u16>::validate(b).is_ok(), "C03: read-back / byte image / validation");
        }
    });
}

/// FlatVec<u32,u16> via flatty::vec::FromIterator with a symbolic number of items: align 4, length @0..2, elements
/// at max(2, 4) = 4 + 4i, size = 4 + 4k.  N = 14 (capacity 0..=2), 0..=3 items.
#[kani::proof]
#[kani::unwind(34)]
fn c15_vec_u32_u16_from_iterator() {
    with_buf::<32>(14, 4, |b, len, off| {
        let e: [u32; 3] = any_arr();
        let k = any_fill(3);
        let r = FlatVec::<u32, u16>::new_in_place(b, flatty::vec::FromIterator(e.into_iter().take(k)));
        let need = 4 + 4 * k;
        c15_outcome!(r, off, len, need);
        if let Ok(v) = r {
            assert!(v.len() == k && v.capacity() == (floor_to(len, 4) - 4) / 4, "C03: read-back / byte image / validation");
            assert!(v.size() == need, "C03: read-back / byte image / validation");
            let s = v.as_slice();
            let img = v.as_bytes();
            assert!(rd_u16(img, 0) as usize == k, "C03: read-back / byte image / validation");
            let mut i = 0;
            while i < 3 {
                if i < k { assert!(s[i] == e[i] && rd_u32(img, 4 + 4 * i) == e[i], "C03: read-back / byte image / validation"); }
                i += 1;
            }
            assert!(FlatVec::<u32, u16>::validate(b).is_ok(), "C03: read-back / byte image / validation");
        }
    });
}

/// FlatString<u16> via flatty::string::FromStr with a symbolic string (any valid UTF-8 of 0..=3 bytes): length
/// @0..2, bytes @2+i, size = ceil(2 + n, 2).  N = 7.
#[kani::proof]
#[kani::unwind(26)]
fn c15_string_from_str() {
    with_buf::<24>(7, 2, |b, len, off| {
        let e: [u8; 3] = any_arr();
        let n = any_fill(3);
        let s = match core::str::from_utf8(&e[..n]) { Ok(s) => s, Err(_) => return };
        let r = FlatString::<u16>::new_in_place(b, flatty::string::FromStr(s));
        let need = ceil_to(2 + n, 2);
        c15_outcome!(r, off, len, need);
        if let Ok(v) = r {
            assert!(v.len() == n && v.capacity() == floor_to(len - 2, 2), "C03: read-back / byte image / validation");
            assert!(v.size() == need, "C03: read-back / byte image / validation");
            let rs = v.as_str().as_bytes();
            let img = v.as_bytes();
            assert!(rd_u16(img, 0) as usize == n, "C03: read-back / byte image / validation");
            assert!(rs.len() == n, "C03: read-back / byte image / validation");
            let mut i = 0;
            while i < 3 {
                if i < n { assert!(rs[i] == e[i] && img[2 + i] == e[i], "C03: read-back / byte image / validation"); }
                i += 1;
            }
            assert!(FlatString::<u16>::validate(b).is_ok(), "C03: read-back / byte image / validation");
        }
    });
}

/// FlatString literals: FromStr("ab"), flat_string!("") and a two-byte character, on a 6-byte garbage buffer.
#[kani::proof]
#[kani::unwind(10)]
fn c03_string_literals() {
    let mut back = Backing::<8>(kani::any());
    {
        let v = FlatString::<u16>::new_in_place(&mut back.0[..6], flatty::string::FromStr("ab")).unwrap();
        assert!(v.as_str() == "ab" && v.len() == 2 && v.size() == 4, "C03: read-back / byte image / validation");
    }
    assert!(rd_u16(&back.0, 0) == 2 && back.0[2] == b'a' && back.0[3] == b'b', "C03: read-back / byte image / validation");
    assert!(FlatString::<u16>::validate(&back.0[..6]).is_ok(), "C03: read-back / byte image / validation");
    let mut back = Backing::<8>(kani::any());
    {
        let v = FlatString::<u16>::new_in_place(&mut back.0[..6], flatty::string::flat_string!("")).unwrap();
        assert!(v.as_str() == "" && v.len() == 0 && v.size() == 2, "C03: read-back / byte image / validation");
    }
    assert!(rd_u16(&back.0, 0) == 0, "C03: read-back / byte image / validation");
    let mut back = Backing::<8>(kani::any());
    {
        let v = FlatString::<u16>::new_in_place(&mut back.0[..6], flatty::string::flat_string!("\u{e9}!")).unwrap();
        assert!(v.as_str() == "\u{e9}!" && v.len() == 3 && v.size() == 6, "C03: read-back / byte image / validation");
    }
    assert!(rd_u16(&back.0, 0) == 3 && back.0[2] == 0xc3 && back.0[3] == 0xa9 && back.0[4] == b'!', "C03: read-back / byte image / validation");
    // too long for the buffer
    let mut back = Backing::<8>(kani::any());
    assert!(is_kind(&FlatString::<u16>::new_in_place(&mut back.0[..4], flatty::string::FromStr("abc")), ErrorKind::InsufficientSize), "C03: read-back / byte image / validation");
}

/// FlexVec<u16,u16> (sized items, align 2): chain of [next: u16][item: u16]; the last item's slot holds u16::MAX,
/// an empty vector is a single 0 slot.  m items need max(2, 4m) bytes.  Via flatty::flex::FromIterator::new with a
/// symbolic number of items 0..=3 (m == 0 is the same state as Empty/default).  N = 11.
#[kani::proof]
#[kani::unwind(30)]
fn c15_flex_u16_from_iterator() {
    with_buf::<28>(11, 2, |b, len, off| {
        let e: [u16; 3] = any_arr();
        let m = any_fill(3);
        let r = FlexVec::<u16, u16>::new_in_place(b, flatty::flex::FromIterator::new(e.into_iter().take(m)));
        let need = if m == 0 { 2 } else { 4 * m };
        c15_outcome!(r, off, len, need);
        if let Ok(v) = r {
            assert!(v.len() == m, "C03: number of items read back differs");
            assert!(v.is_empty() == (m == 0), "C03: read-back / byte image / validation");
            assert!(v.size() == need, "C03: read-back / byte image / validation");
            {
                let mut it = v.iter();
                let mut i = 0;
                while i < 3 {
                    if i < m { assert!(*it.next().unwrap() == e[i], "C03: read-back / byte image / validation"); }
                    i += 1;
                }
                assert!(it.next().is_none(), "C03: read-back / byte image / validation");
            }
            let img = v.as_bytes();
            let mut i = 0;
            while i < 3 {
                if i < m {
                    let slot = rd_u16(img, 4 * i);
                    if i + 1 < m { assert!(slot == 4, "C03: offset slot of an inner item"); } else { assert!(slot == u16::MAX, "C03: offset slot of the last item"); }
                    assert!(rd_u16(img, 4 * i + 2) == e[i], "C03: read-back / byte image / validation");
                }
                i += 1;
            }
            if m == 0 { assert!(rd_u16(img, 0) == 0, "C03: read-back / byte image / validation"); }
            assert!(FlexVec::<u16, u16>::validate(b).is_ok(), "C03: read-back / byte image / validation");
        }
    });
}

/// FlexVec<FlatVec<u8,u8>,u8> (UNSIZED items, align 1) with nested flat_vec! item emplacers:
/// [next][len][e..][next][len][e..]; inner items: next = 1 + 1 + len, last item: next = 255.
/// Two items flat_vec![x0, x1], flat_vec![y0, y1] need 8 bytes; one item needs 4; N = 10.
#[kani::proof]
#[kani::unwind(12)]
fn c15_flex_unsized_items() {
    let mut back = Backing::<10>(kani::any());
    let orig = back.0;
    let len = any_fill(9);
    let off = 0;
    {
        let b = &mut back.0[..len];
        let (x, y): ([u8; 2], [u8; 2]) = (any_arr(), any_arr());
        let m = any_fill(2);
        let items = [flat_vec![x[0], x[1]], flat_vec![y[0], y[1]]];
        let r = FlexVec::<FlatVec<u8, u8>, u8>::new_in_place(b, flatty::flex::FromIterator::new(items.into_iter().take(m)));
        let need = if m == 0 { 1 } else { 4 * m };
        c15_outcome!(r, off, len, need);
        if let Ok(v) = r {
            assert!(v.len() == m, "C03: read-back / byte image / validation");
            assert!(v.size() == need, "C03: read-back / byte image / validation");
            {
                let mut it = v.iter();
                if m >= 1 {
                    let i0 = it.next().unwrap();
                    assert!(i0.len() == 2 && i0.as_slice()[0] == x[0] && i0.as_slice()[1] == x[1], "C03: read-back / byte image / validation");
                }
                if m >= 2 {
                    let i1 = it.next().unwrap();
                    assert!(i1.len() == 2 && i1.as_slice()[0] == y[0] && i1.as_slice()[1] == y[1], "C03: read-back / byte image / validation");
                }
                assert!(it.next().is_none(), "C03: read-back / byte image / validation");
            }
            let img = v.as_bytes();
            match m {
                0 => assert!(img[0] == 0, "C03: read-back / byte image / validation"),
                1 => assert!(img[0] == 255 && img[1] == 2 && img[2] == x[0] && img[3] == x[1], "C03: read-back / byte image / validation"),
                _ => {
                    assert!(img[0] == 4 && img[1] == 2 && img[2] == x[0] && img[3] == x[1], "C03: read-back / byte image / validation");
                    assert!(img[4] == 255 && img[5] == 2 && img[6] == y[0] && img[7] == y[1], "C03: read-back / byte image / validation");
                }
            }
            assert!(FlexVec::<FlatVec<u8, u8>, u8>::validate(b).is_ok(), "C03: read-back / byte image / validation");
        }
    }
    let mut i = 0;
    while i < 10 {
        if i >= len { assert!(back.0[i] == orig[i], "C14: a byte outside the slice handed to the library was modified"); }
        i += 1;
    }
}

/// FlatWrap::new_in_place with the pointer type `&mut [u8]` (TrustedRef + AsRef + AsMut): same three-way outcome as
/// UStruct::new_in_place, the wrapper derefs to the emplaced value and gives the pointer back.  N = 11.
#[kani::proof]
#[kani::unwind(30)]
fn c15_wrap_new_in_place() {
    with_buf::<28>(11, 2, |b, len, off| {
        let (a, bb): (u8, u16) = (kani::any(), kani::any());
        let e: [u8; 3] = any_arr();
        let r = FlatWrap::<UStruct, &mut [u8]>::new_in_place(b, UStructInit { a, b: bb, c: flatty::vec::FromArray(e) });
        c15_outcome!(r, off, len, 10);
        if let Ok(mut w) = r {
            assert!(w.a == a && w.b == bb && w.c.len() == 3 && w.size() == 10, "C03: read-back / byte image / validation");
            assert!(w.c.as_slice()[0] == e[0] && w.c.as_slice()[1] == e[1] && w.c.as_slice()[2] == e[2], "C03: read-back / byte image / validation");
            // DerefMut maps the same bytes
            w.a = !a;
            let p = w.into_inner();
            assert!(p.len() == len, "C03: read-back / byte image / validation");
            assert!(p[0] == !a && rd_u16(p, 2) == bb && rd_u16(p, 4) == 3 && p[6] == e[0] && p[7] == e[1] && p[8] == e[2], "C03: read-back / byte image / validation");
            assert!(UStruct::validate(p).is_ok(), "C03: read-back / byte image / validation");
        }
    });
}

/// FlatWrap::default_in_place(&mut [u8]) for an unsized enum.  N = 6.
#[kani::proof]
#[kani::unwind(26)]
fn c15_wrap_default_in_place() {
    with_buf::<24>(6, 4, |b, len, off| {
        let r = FlatWrap::<UEnum, &mut [u8]>::default_in_place(b);
        c15_outcome!(r, off, len, 4);
        if let Ok(w) = r {
            assert!(matches!(w.as_ref(), UEnumRef::A) && w.size() == 4, "C03: read-back / byte image / validation");
            let p = w.into_inner();
            assert!(p[0] == 0 && UEnum::validate(p).is_ok(), "C03: read-back / byte image / validation");
        }
    });
}

// ------------------------------------------------------------------------------------------------------------------
// C14 first form + C03: exact-size heap allocation (util::sym_slice), concrete lengths: any access past the slice is
// an out-of-bounds object access for CBMC.
// ------------------------------------------------------------------------------------------------------------------

/// UStruct exactly full (len 10 = 6 + 4) and with one spare byte that is not a whole element slot (len 11).
#[kani::proof]
#[kani::unwind(14)]
fn c03_exact_ustruct() {
    let odd: bool = kani::any();
    let b = if odd { sym_slice(11, 2, 0, 11) } else { sym_slice(10, 2, 0, 11) };
    let (a, bb): (u8, u16) = (kani::any(), kani::any());
    let e: [u8; 4] = any_arr();
    let v = UStruct::new_in_place(b, UStructInit { a, b: bb, c: flat_vec![e[0], e[1], e[2], e[3]] }).unwrap();
    assert!(v.a == a && v.b == bb && v.c.len() == 4 && v.c.is_full() && v.size() == 10, "C03: read-back / byte image / validation");
    assert!(v.c.push(0).is_err(), "C03: read-back / byte image / validation");
    assert!(b[0] == a && rd_u16(b, 2) == bb && rd_u16(b, 4) == 4 && b[6] == e[0] && b[9] == e[3], "C03: read-back / byte image / validation");
    assert!(UStruct::validate(b).is_ok(), "C03: read-back / byte image / validation");
    // one byte less: refused, nothing past the 9 bytes touched
    let b9 = sym_slice(9, 2, 0, 11);
    assert!(is_kind(&UStruct::new_in_place(b9, UStructInit { a, b: bb, c: flat_vec![e[0], e[1], e[2], e[3]] }), ErrorKind::InsufficientSize), "C03: read-back / byte image / validation");
}

/// UEnum::C exactly full (len 12 = 4 + 4 + 2 + 2), and with 3 spare bytes below the next multiple of the alignment.
#[kani::proof]
#[kani::unwind(18)]
fn c03_exact_uenum() {
    let spare: bool = kani::any();
    let b = if spare { sym_slice(15, 4, 0, 15) } else { sym_slice(12, 4, 0, 15) };
    let offset: u32 = kani::any();
    let e: [u8; 2] = any_arr();
    let v = UEnum::new_in_place(b, UEnumInitC { offset, bytes: flat_vec![e[0], e[1]] }).unwrap();
    assert!(v.size() == 12, "C03: read-back / byte image / validation");
    match v.as_mut() {
        UEnumMut::C { offset: o, bytes } => { assert!(*o == offset && bytes.len() == 2 && bytes.is_full(), "C03: read-back / byte image / validation"); assert!(bytes.push(1).is_err(), "C03: read-back / byte image / validation"); }
        _ => panic!(),
    }
    assert!(b[0] == 2 && rd_u32(b, 4) == offset && rd_u16(b, 8) == 2 && b[10] == e[0] && b[11] == e[1], "C03: read-back / byte image / validation");
    assert!(UEnum::validate(b).is_ok(), "C03: read-back / byte image / validation");
    let b8 = sym_slice(8, 4, 0, 15);
    assert!(is_kind(&UEnum::new_in_place(b8, UEnumInitC { offset, bytes: flat_vec![] }), ErrorKind::InsufficientSize), "C03: read-back / byte image / validation");
    let b4 = sym_slice(4, 4, 0, 15);
    assert!(is_kind(&UEnum::new_in_place(b4, UEnumInitB(1, 2)), ErrorKind::InsufficientSize), "C03: read-back / byte image / validation");
    assert!(UEnum::new_in_place(b4, UEnumInitA).is_ok(), "C03: read-back / byte image / validation");
}

/// empty slice at an aligned address: every constructor refuses with InsufficientSize, none touches memory
#[kani::proof]
#[kani::unwind(4)]
fn c15_empty_slice() {
    let b = sym_slice(0, 8, 0, 0);
    assert!(is_kind(&u8::default_in_place(b), ErrorKind::InsufficientSize), "C03: read-back / byte image / validation");
    assert!(is_kind(&SStruct::default_in_place(b), ErrorKind::InsufficientSize), "C03: read-back / byte image / validation");
    assert!(is_kind(&UStruct::default_in_place(b), ErrorKind::InsufficientSize), "C03: read-back / byte image / validation");
    assert!(is_kind(&UPad::default_in_place(b), ErrorKind::InsufficientSize), "C03: read-back / byte image / validation");
    assert!(is_kind(&UEnum::default_in_place(b), ErrorKind::InsufficientSize), "C03: read-back / byte image / validation");
    assert!(is_kind(&PUEnum::default_in_place(b), ErrorKind::InsufficientSize), "C03: read-back / byte image / validation");
    assert!(is_kind(&FlatVec::<u8, u16>::default_in_place(b), ErrorKind::InsufficientSize), "C03: read-back / byte image / validation");
    assert!(is_kind(&FlatString::<u16>::default_in_place(b), ErrorKind::InsufficientSize), "C03: read-back / byte image / validation");
    assert!(is_kind(&FlexVec::<u16, u16>::default_in_place(b), ErrorKind::InsufficientSize), "C03: read-back / byte image / validation");
    assert!(is_kind(&FlatWrap::<UEnum, &mut [u8]>::default_in_place(b), ErrorKind::InsufficientSize), "C03: read-back / byte image / validation");
}

// ------------------------------------------------------------------------------------------------------------------
// C20: default_in_place (symbolic garbage, symbolic length and offset; concrete expected fields and bytes)
// ------------------------------------------------------------------------------------------------------------------

/// sized primitives, arrays, portable scalars: zero / Default::default(), all bytes of the value are 0
#[kani::proof]
#[kani::unwind(18)]
fn c20_primitives() {
    macro_rules! prim {
        ($T:ty, $size:expr, $zero:expr) => {{
            let mut back = Backing::<16>(kani::any());
            {
                let v = <$T>::default_in_place(&mut back.0[..]).unwrap();
                assert!(*v == $zero && *v == <$T as Default>::default(), "C20: default state / bytes / validation");
                assert!(v.size() == $size, "C20: default state / bytes / validation");
            }
            let mut i = 0;
            while i < $size {
                assert!(back.0[i] == 0, "C20: default state / bytes / validation");
                i += 1;
            }
            assert!(<$T>::validate(&back.0[..]).is_ok(), "C20: default state / bytes / validation");
        }};
    }
    prim!(u8, 1, 0);
    prim!(i16, 2, 0);
    prim!(u32, 4, 0);
    prim!(u64, 8, 0);
    prim!(i64, 8, 0);
    prim!(f32, 4, 0.0);
    prim!([u16; 3], 6, [0u16; 3]);
    prim!(Bool, 1, Bool::False);
    prim!(le::U16, 2, le::U16::from(0));
    prim!(be::U32, 4, be::U32::from(0));
    prim!(le::I64, 8, le::I64::from(0));
}

/// sized corpus types: result == Default::default(), independent of the garbage; C15 outcome for every len/off
macro_rules! c20_sized {
    ($name:ident, $T:ty, $align:expr, $size:expr, $n:expr, $tbytes:expr, $unwind:literal, |$v:ident, $img:ident| $extra:expr) => {
        #[kani::proof]
        #[kani::unwind($unwind)]
        fn $name() {
            with_buf::<$tbytes>($n, $align, |b, len, off| {
                let r = <$T>::default_in_place(b);
                c15_outcome!(r, off, len, $size);
                if let Ok($v) = r {
                    assert!(*$v == <$T as Default>::default(), "C20: not equal to Default::default()");
                    assert!($v.size() == $size, "C20: default state / bytes / validation");
                    let $img = $v.as_bytes();
                    assert!($img.len() == $size, "C20: default state / bytes / validation");
                    $extra;
                    assert!(<$T>::validate(b).is_ok(), "C20: default state / bytes / validation");
                }
            });
        }
    };
}
c20_sized!(c20_sstruct, SStruct, 8, 24, 25, 48, 50, |v, img| {
    assert!(v.a == 0 && v.b == 0 && v.c == 0 && v.d == [0, 0], "C20: default state / bytes / validation");
    assert!(img[0] == 0 && rd_u16(img, 2) == 0 && rd_u32(img, 4) == 0, "C20: default state / bytes / validation");
    let mut i = 8;
    while i < 24 { assert!(img[i] == 0, "C20: default state / bytes / validation"); i += 1; }
});
c20_sized!(c20_sbool, SBool, 4, 12, 13, 32, 34, |v, img| {
    assert!(v.x == 0 && v.flag == Bool::False && v.arr == [Bool::False, Bool::False] && v.y == 0, "C20: default state / bytes / validation");
    assert!(img[0] == 0 && img[1] == 0 && img[2] == 0 && img[3] == 0 && img[4] == 0 && rd_u32(img, 8) == 0, "C20: default state / bytes / validation");
});
c20_sized!(c20_senum, SEnum, 4, 8, 9, 24, 26, |v, img| {
    assert!(matches!(*v, SEnum::A), "C20: not the #[default] variant");
    assert!(img[0] == 0, "C20: default state / bytes / validation");
});
c20_sized!(c20_cenum, CEnum, 1, 1, 2, 16, 18, |v, img| {
    assert!(matches!(*v, CEnum::A), "C20: not the #[default] variant");
    assert!(img[0] == 0, "C20: default state / bytes / validation");
});

/// PStruct has default = true but no PartialEq: compare field by field
#[kani::proof]
#[kani::unwind(26)]
fn c20_pstruct() {
    with_buf::<24>(9, 1, |b, len, off| {
        let r = PStruct::default_in_place(b);
        c15_outcome!(r, off, len, 8);
        if let Ok(v) = r {
            let d = PStruct::default();
            assert!(v.a == 0 && u16::from(v.b) == 0 && u32::from(v.c) == 0 && v.f == Bool::False, "C20: default state / bytes / validation");
            assert!(v.a == d.a && v.b == d.b && v.c == d.c && v.f == d.f, "C20: not equal to Default::default()");
            assert!(v.size() == 8, "C20: default state / bytes / validation");
            let img = v.as_bytes();
            let mut i = 0;
            while i < 8 { assert!(img[i] == 0, "C20: default state / bytes / validation"); i += 1; }
            assert!(PStruct::validate(b).is_ok(), "C20: default state / bytes / validation");
        }
    });
}

/// UStruct: a = 0, b = 0, c empty; size() = MIN_SIZE = 6
#[kani::proof]
#[kani::unwind(26)]
fn c20_ustruct() {
    with_buf::<24>(9, 2, |b, len, off| {
        let r = UStruct::default_in_place(b);
        c15_outcome!(r, off, len, 6);
        if let Ok(v) = r {
            assert!(v.a == 0 && v.b == 0 && v.c.len() == 0 && v.c.is_empty(), "C20: default state / bytes / validation");
            assert!(v.c.capacity() == floor_to(len, 2) - 6, "C20: default state / bytes / validation");
            assert!(v.size() == 6 && v.size() == <UStruct as FlatBase>::MIN_SIZE, "C20: size() is not minimal");
            let img = v.as_bytes();
            assert!(img[0] == 0 && rd_u16(img, 2) == 0 && rd_u16(img, 4) == 0, "C20: default state / bytes / validation");
            assert!(UStruct::validate(b).is_ok(), "C20: default state / bytes / validation");
        }
    });
}

/// UPad: a = 0, v empty; size() = MIN_SIZE = 16 (10 rounded up to the alignment 8)
#[kani::proof]
#[kani::unwind(42)]
fn c20_upad() {
    with_buf::<40>(18, 8, |b, len, off| {
        let r = UPad::default_in_place(b);
        c15_outcome!(r, off, len, 16);
        if let Ok(v) = r {
            assert!(v.a == 0 && v.v.len() == 0, "C20: default state / bytes / validation");
            assert!(v.size() == 16 && v.size() == <UPad as FlatBase>::MIN_SIZE, "C20: size() is not minimal");
            let img = v.as_bytes();
            let mut i = 0;
            while i < 10 { assert!(img[i] == 0, "C20: default state / bytes / validation"); i += 1; }
            assert!(UPad::validate(b).is_ok(), "C20: default state / bytes / validation");
        }
    });
}

/// UEnum: the #[default] variant A; size() = MIN_SIZE = 4
#[kani::proof]
#[kani::unwind(30)]
fn c20_uenum() {
    with_buf::<28>(13, 4, |b, len, off| {
        let r = UEnum::default_in_place(b);
        c15_outcome!(r, off, len, 4);
        if let Ok(v) = r {
            assert!(matches!(v.as_ref(), UEnumRef::A), "C20: not the #[default] variant");
            assert!(v.size() == 4 && v.size() == <UEnum as FlatBase>::MIN_SIZE, "C20: size() is not minimal");
            assert!(v.as_bytes()[0] == 0, "C20: default state / bytes / validation");
            assert!(UEnum::validate(b).is_ok(), "C20: default state / bytes / validation");
        }
    });
}

/// UBoolVec: n = 0, flags empty; size() = MIN_SIZE = 2
#[kani::proof]
#[kani::unwind(22)]
fn c20_uboolvec() {
    with_buf::<20>(5, 1, |b, len, off| {
        let r = UBoolVec::default_in_place(b);
        c15_outcome!(r, off, len, 2);
        if let Ok(v) = r {
            assert!(v.n == 0 && v.flags.len() == 0 && v.flags.capacity() == len - 2, "C20: default state / bytes / validation");
            assert!(v.size() == 2 && v.size() == <UBoolVec as FlatBase>::MIN_SIZE, "C20: size() is not minimal");
            let img = v.as_bytes();
            assert!(img[0] == 0 && img[1] == 0, "C20: default state / bytes / validation");
            assert!(UBoolVec::validate(b).is_ok(), "C20: default state / bytes / validation");
        }
    });
}

/// PUStruct: a = 0, b empty; size() = MIN_SIZE = 4.  PUEnum: variant A; size() = MIN_SIZE = 1.
#[kani::proof]
#[kani::unwind(22)]
fn c20_pustruct_puenum() {
    with_buf::<20>(6, 1, |b, len, off| {
        let r = PUStruct::default_in_place(b);
        c15_outcome!(r, off, len, 4);
        if let Ok(v) = r {
            assert!(u16::from(v.a) == 0 && v.b.len() == 0 && v.b.capacity() == (len - 4) / 2, "C20: default state / bytes / validation");
            assert!(v.size() == 4 && v.size() == <PUStruct as FlatBase>::MIN_SIZE, "C20: size() is not minimal");
            let img = v.as_bytes();
            assert!(img[0] == 0 && img[1] == 0 && img[2] == 0 && img[3] == 0, "C20: default state / bytes / validation");
            assert!(PUStruct::validate(b).is_ok(), "C20: default state / bytes / validation");
        }
    });
    with_buf::<20>(6, 1, |b, len, off| {
        let r = PUEnum::default_in_place(b);
        c15_outcome!(r, off, len, 1);
        if let Ok(v) = r {
            assert!(matches!(v.as_ref(), PUEnumRef::A), "C20: not the #[default] variant");
            assert!(v.size() == 1 && v.size() == <PUEnum as FlatBase>::MIN_SIZE, "C20: size() is not minimal");
            assert!(v.as_bytes()[0] == 0, "C20: default state / bytes / validation");
            assert!(PUEnum::validate(b).is_ok(), "C20: default state / bytes / validation");
        }
    });
}

/// the empty state of one container (split from one harness: together they did not finish)
#[kani::proof]
#[kani::unwind(26)]
fn c20_container_vec_u32_u16() {
    with_buf::<24>(9, 4, |b, len, off| {
        let r = FlatVec::<u32, u16>::default_in_place(b);
        c15_outcome!(r, off, len, 4);
        if let Ok(v) = r {
            assert!(v.len() == 0 && v.is_empty() && v.capacity() == (floor_to(len, 4) - 4) / 4, "C20: default state / bytes / validation");
            assert!(v.size() == 4 && v.size() == <FlatVec<u32, u16> as FlatBase>::MIN_SIZE, "C20: size() is not minimal");
            assert!(rd_u16(v.as_bytes(), 0) == 0, "C20: default state / bytes / validation");
            assert!(FlatVec::<u32, u16>::validate(b).is_ok(), "C20: default state / bytes / validation");
        }
    });
}

/// the empty state of one container (split from one harness: together they did not finish)
#[kani::proof]
#[kani::unwind(26)]
fn c20_container_string_u16() {
    with_buf::<24>(5, 2, |b, len, off| {
        let r = FlatString::<u16>::default_in_place(b);
        c15_outcome!(r, off, len, 2);
        if let Ok(v) = r {
            assert!(v.len() == 0 && v.is_empty() && v.capacity() == floor_to(len - 2, 2), "C20: default state / bytes / validation");
            assert!(v.size() == 2 && v.size() == <FlatString<u16> as FlatBase>::MIN_SIZE, "C20: size() is not minimal");
            assert!(rd_u16(v.as_bytes(), 0) == 0, "C20: default state / bytes / validation");
            assert!(FlatString::<u16>::validate(b).is_ok(), "C20: default state / bytes / validation");
        }
    });
}

/// the empty state of one container (split from one harness: together they did not finish)
#[kani::proof]
#[kani::unwind(26)]
fn c20_container_flex_u16_u16() {
    with_buf::<24>(7, 2, |b, len, off| {
        let r = FlexVec::<u16, u16>::default_in_place(b);
        c15_outcome!(r, off, len, 2);
        if let Ok(v) = r {
            assert!(v.len() == 0 && v.is_empty() && v.iter().next().is_none(), "C20: default state / bytes / validation");
            assert!(v.size() == 2 && v.size() == <FlexVec<u16, u16> as FlatBase>::MIN_SIZE, "C20: size() is not minimal");
            assert!(rd_u16(v.as_bytes(), 0) == 0, "C20: default state / bytes / validation");
            assert!(FlexVec::<u16, u16>::validate(b).is_ok(), "C20: default state / bytes / validation");
        }
    });
}

/// the empty state of one container (split from one harness: together they did not finish)
#[kani::proof]
#[kani::unwind(26)]
fn c20_container_flex_vec_u8() {
    with_buf::<24>(4, 1, |b, len, off| {
        let r = FlexVec::<FlatVec<u8, u8>, u8>::default_in_place(b);
        c15_outcome!(r, off, len, 1);
        if let Ok(v) = r {
            assert!(v.len() == 0 && v.is_empty(), "C20: default state / bytes / validation");
            assert!(v.size() == 1, "C20: size() is not minimal");
            assert!(v.as_bytes()[0] == 0, "C20: default state / bytes / validation");
            assert!(FlexVec::<FlatVec<u8, u8>, u8>::validate(b).is_ok(), "C20: default state / bytes / validation");
        }
    });
}

// ------------------------------------------------------------------------------------------------------------------
// C18: a failed assign_in_place leaves a valid value behind; "too little room" leaves it unchanged.
// Start from ANY valid current value (symbolic bytes accepted by from_mut_bytes), symbolic replacement (every
// variant / fill, including ones that do not fit).  Two harnesses per type: *_valid_after_err (bytes validate,
// size() / deep read / second assignment do not panic) and *_unchanged_after_err (observable content unchanged).
// The replacement emplacers used here can only fail for lack of room, so every Err is the "too little room" cause.
// ------------------------------------------------------------------------------------------------------------------

#[derive(PartialEq, Eq, Clone, Copy)]
struct Obs { tag: u8, x: u32, y: u16, n: usize, e: [u8; 4] }

fn observe_uenum(v: &UEnum) -> Obs {
    let mut o = Obs { tag: 0, x: 0, y: 0, n: 0, e: [0; 4] };
    match v.as_ref() {
        UEnumRef::A => {}
        UEnumRef::B(p, q) => { o.tag = 1; o.x = *p as u32; o.y = *q; }
        UEnumRef::C { offset, bytes } => {
            o.tag = 2; o.x = *offset; o.n = bytes.len();
            let s = bytes.as_slice();
            let mut i = 0;
            while i < 4 { if i < s.len() { o.e[i] = s[i]; } i += 1; }
        }
    }
    o
}

/// UEnum, N = 14 (capacity of C up to 4): every valid current value, replacement A / B / C with 0..=3 elements.
fn c18_uenum(unchanged: bool) {
    let mut back = Backing::<16>(kani::any());
    let len = any_fill(14);
    let cur = match UEnum::from_mut_bytes(&mut back.0[..len]) { Ok(v) => v, Err(_) => return };
    let before = observe_uenum(cur);
    let which: u8 = kani::any();
    kani::assume(which < 3);
    let (x, y, offset): (u8, u16, u32) = (kani::any(), kani::any(), kani::any());
    let e: [u8; 3] = any_arr();
    let k = any_fill(3);
    let res = match which {
        0 => cur.assign_in_place(UEnumInitA).map(|_| ()),
        1 => cur.assign_in_place(UEnumInitB(x, y)).map(|_| ()),
        _ => cur.assign_in_place(UEnumInitC { offset, bytes: flatty::vec::FromIterator(e.into_iter().take(k)) }).map(|_| ()),
    };
    let need = match which { 0 => 4, 1 => 8, _ => ceil_to(10 + k, 4) };
    assert!(res.is_ok() == (need <= floor_to(len, 4)), "C18: assignment outcome differs from 'the replacement fits'");
    match res {
        Ok(()) => {
            let after = observe_uenum(cur);
            assert!(after.tag == which, "C03: assigned variant is not read back");
            assert!(UEnum::validate(cur.as_bytes()).is_ok(), "C03: assigned value does not validate");
        }
        Err(err) => {
            assert!(err.kind == ErrorKind::InsufficientSize, "C18: wrong error kind");
            if unchanged {
                assert!(observe_uenum(cur) == before, "C18: target changed by an assignment that failed for lack of room");
            } else {
                assert!(UEnum::validate(cur.as_bytes()).is_ok(), "C18: target bytes no longer validate after a failed assignment");
                let _ = cur.size();
                let _ = observe_uenum(cur);
                let _ = cur.assign_in_place(UEnumInitA).map(|_| ());
            }
        }
    }
}
stamp!(c18_uenum_valid_after_err, 18, c18_uenum(false));
stamp!(c18_uenum_unchanged_after_err, 18, c18_uenum(true));

fn observe_ustruct(v: &UStruct) -> Obs {
    let mut o = Obs { tag: v.a, x: 0, y: v.b, n: v.c.len(), e: [0; 4] };
    let s = v.c.as_slice();
    let mut i = 0;
    while i < 4 { if i < s.len() { o.e[i] = s[i]; } i += 1; }
    o
}

/// UStruct, N = 10 (capacity up to 4): every valid current value; replacement fields + flat_vec! of 0 / 2 / 5 elements.
fn c18_ustruct(unchanged: bool) {
    let mut back = Backing::<16>(kani::any());
    let len = any_fill(10);
    let cur = match UStruct::from_mut_bytes(&mut back.0[..len]) { Ok(v) => v, Err(_) => return };
    let before = observe_ustruct(cur);
    let (a, bb): (u8, u16) = (kani::any(), kani::any());
    let e: [u8; 5] = any_arr();
    let sel: u8 = kani::any();
    let (k, res) = match sel {
        0 => (0, cur.assign_in_place(UStructInit { a, b: bb, c: flat_vec![] }).map(|_| ())),
        1 => (2, cur.assign_in_place(UStructInit { a, b: bb, c: flat_vec![e[0], e[1]] }).map(|_| ())),
        _ => (5, cur.assign_in_place(UStructInit { a, b: bb, c: flatty::vec::FromArray(e) }).map(|_| ())),
    };
    assert!(res.is_ok() == (6 + k <= floor_to(len, 2)), "C18: assignment outcome differs from 'the replacement fits'");
    match res {
        Ok(()) => {
            let after = observe_ustruct(cur);
            assert!(after.tag == a && after.y == bb && after.n == k, "C03: assigned content is not read back");
            assert!(UStruct::validate(cur.as_bytes()).is_ok(), "C03: assigned value does not validate");
        }
        Err(err) => {
            assert!(err.kind == ErrorKind::InsufficientSize, "C18: wrong error kind");
            if unchanged {
                assert!(observe_ustruct(cur) == before, "C18: target changed by an assignment that failed for lack of room");
            } else {
                assert!(UStruct::validate(cur.as_bytes()).is_ok(), "C18: target bytes no longer validate after a failed assignment");
                let _ = cur.size();
                let _ = observe_ustruct(cur);
                let _ = cur.assign_in_place(UStructInit { a, b: bb, c: flat_vec![] }).map(|_| ());
            }
        }
    }
}
stamp!(c18_ustruct_valid_after_err, 18, c18_ustruct(false));
stamp!(c18_ustruct_unchanged_after_err, 18, c18_ustruct(true));

fn observe_vec(v: &FlatVec<u8, u16>) -> Obs {
    let mut o = Obs { tag: 0, x: 0, y: 0, n: v.len(), e: [0; 4] };
    let s = v.as_slice();
    let mut i = 0;
    while i < 4 { if i < s.len() { o.e[i] = s[i]; } i += 1; }
    o
}

/// FlatVec<u8,u16>, N = 6 (capacity up to 4): replacement flat_vec! of 1 / 5 elements (FromArray) or an iterator of
/// 0..=5 items (FromIterator).
fn c18_vec(unchanged: bool, from_iter: bool) {
    let mut back = Backing::<8>(kani::any());
    let len = any_fill(6);
    let cur = match FlatVec::<u8, u16>::from_mut_bytes(&mut back.0[..len]) { Ok(v) => v, Err(_) => return };
    let before = observe_vec(cur);
    let e: [u8; 5] = any_arr();
    let (k, res) = if from_iter {
        let k = any_fill(5);
        (k, cur.assign_in_place(flatty::vec::FromIterator(e.into_iter().take(k))).map(|_| ()))
    } else if kani::any() {
        (1, cur.assign_in_place(flat_vec![e[0]]).map(|_| ()))
    } else {
        (5, cur.assign_in_place(flatty::vec::FromArray(e)).map(|_| ()))
    };
    assert!(res.is_ok() == (2 + k <= floor_to(len, 2)), "C18: assignment outcome differs from 'the replacement fits'");
    match res {
        Ok(()) => {
            assert!(cur.len() == k, "C03: assigned content is not read back");
            assert!(FlatVec::<u8, u16>::validate(cur.as_bytes()).is_ok(), "C03: assigned value does not validate");
        }
        Err(err) => {
            assert!(err.kind == ErrorKind::InsufficientSize, "C18: wrong error kind");
            if unchanged {
                assert!(observe_vec(cur) == before, "C18: target changed by an assignment that failed for lack of room");
            } else {
                assert!(FlatVec::<u8, u16>::validate(cur.as_bytes()).is_ok(), "C18: target bytes no longer validate after a failed assignment");
                let _ = cur.size();
                let _ = observe_vec(cur);
                let _ = cur.assign_in_place(flat_vec![e[0]]).map(|_| ());
            }
        }
    }
}
stamp!(c18_vec_from_array_valid_after_err, 10, c18_vec(false, false));
stamp!(c18_vec_from_array_unchanged_after_err, 10, c18_vec(true, false));
stamp!(c18_vec_from_iterator_valid_after_err, 10, c18_vec(false, true));
stamp!(c18_vec_from_iterator_unchanged_after_err, 10, c18_vec(true, true));

fn observe_flex(v: &FlexVec<u16, u16>) -> Obs {
    let mut o = Obs { tag: 0, x: 0, y: 0, n: 0, e: [0; 4] };
    let mut it = v.iter();
    let mut i = 0;
    while i < 3 {
        if let Some(x) = it.next() { o.n += 1; if i == 0 { o.x = *x as u32; } if i == 1 { o.y = *x; } }
        i += 1;
    }
    o
}

/// FlexVec<u16,u16>, N = 8 (up to 2 items): every valid current chain; replacement = iterator of 0..=3 items.
fn c18_flex(unchanged: bool) {
    let mut back = Backing::<8>(kani::any());
    let len = any_fill(8);
    let cur = match FlexVec::<u16, u16>::from_mut_bytes(&mut back.0[..len]) { Ok(v) => v, Err(_) => return };
    let before = observe_flex(cur);
    let e: [u16; 3] = any_arr();
    let m = any_fill(3);
    let res = cur.assign_in_place(flatty::flex::FromIterator::new(e.into_iter().take(m))).map(|_| ());
    let need = if m == 0 { 2 } else { 4 * m };
    assert!(res.is_ok() == (need <= floor_to(len, 2)), "C18: assignment outcome differs from 'the replacement fits'");
    match res {
        Ok(()) => {
            assert!(observe_flex(cur).n == m, "C03: assigned content is not read back");
            assert!(FlexVec::<u16, u16>::validate(cur.as_bytes()).is_ok(), "C03: assigned value does not validate");
        }
        Err(err) => {
            assert!(err.kind == ErrorKind::InsufficientSize, "C18: wrong error kind");
            if unchanged {
                assert!(observe_flex(cur) == before, "C18: target changed by an assignment that failed for lack of room");
            } else {
                assert!(FlexVec::<u16, u16>::validate(cur.as_bytes()).is_ok(), "C18: target bytes no longer validate after a failed assignment");
                let _ = cur.size();
                let _ = observe_flex(cur);
                let _ = cur.assign_in_place(flatty::flex::Empty).map(|_| ());
            }
        }
    }
}
stamp!(c18_flex_valid_after_err, 12, c18_flex(false));
stamp!(c18_flex_unchanged_after_err, 12, c18_flex(true));
