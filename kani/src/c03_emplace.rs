//! placeholder
