//! Kani contract harnesses for agerasev/flatty.  This crate contains NO copy of flatty code: every harness
//! calls the public API of the crates built from /repo's working tree (real proc-macro, real stavec).
//! Harness shape: assume(precondition); call the real function; assert(postcondition vs. reference).
#![allow(dead_code, unused_imports, unused_variables, unused_mut, clippy::all)]
#![cfg_attr(kani, feature(layout_for_ptr))]

pub mod reference;
pub mod corpus;
pub mod util;
#[cfg(kani)]
mod c16_portable;
#[cfg(kani)]
mod c01_validate;
#[cfg(kani)]
mod c04_layout;
#[cfg(kani)]
mod c03_emplace;
#[cfg(kani)]
mod c05_size;
#[cfg(kani)]
mod c11_vecops;
#[cfg(kani)]
mod c12_flex;
#[cfg(kani)]
mod c12_hist;
#[cfg(kani)]
mod c15_extra;
#[cfg(kani)]
mod c10_io;
