//! C12 / C13 / C14 / C05 (FlexVec part) -- one step from ANY valid state.
//!
//! C12 "FlexVec behaves as a sequence of independently sized items under every history": After any sequence of
//!     push, push_default, pop, truncate, clear and in-place edits of individual items, a FlexVec reports the length
//!     and yields the items (in order, with their contents) of the corresponding abstract sequence; pop removes
//!     exactly the last item, truncate(n) keeps exactly the first min(n, len) items, editing one item never changes
//!     another, and the bytes validate and re-map to the same sequence after every step.
//! C13 "A rejected container operation leaves the container exactly as it was" (FlexVec push refused: no room,
//!     length type exhausted, item emplacer fails): length, items, size(), validity as before the call.
//! C14 "In-place mutation stays inside the value": only bytes inside the slice, and inside it only bytes belonging
//!     to the part being changed; neighbouring items and memory after the buffer keep their contents.
//! C05 size() equals the reference extent (end of used data rounded up to ALIGN), never exceeds the mapped bytes,
//!     and mapping only the first size() bytes succeeds and gives the same content and size().
//!
//! PROOF SHAPE.  Every harness starts from an exact-size heap slice of symbolic length <= N (BOUNDED, stated per
//! harness) with fully symbolic contents that the library accepts (`from_mut_bytes` is Ok) -- an over-approximation
//! of every state reachable by any history -- performs ONE real operation and compares with the abstract sequence.
//! The abstract sequence is obtained by `walk`, an independent chain walk written from the format description
//! ([slot of max(size L, align T) bytes][payload]; slot = distance to the next slot; 0 = end; L::MAX = last item
//! owns the rest).  The work is split in two inductive halves:
//!   *view*  harnesses: for every accepted byte string, len / is_empty / iter / size() == reference view of the bytes
//!           (and the reference accepts it);
//!   *step*  harnesses: for every accepted byte string, after the operation the bytes are accepted again and the
//!           reference view of the new bytes == model operation applied to the reference view of the old bytes
//!           (+ frame conditions of C14, + unchanged view on Err for C13).
//! Together: library view after any history == abstract sequence after that history.
//! Step harnesses additionally assume the reference walk accepts the pre-state (`wf`); every reachable state
//! satisfies it (that is what the step harnesses re-establish), and the view harnesses check accepted ==> wf.
use crate::reference::{ceil_to, floor_to};
use crate::util::*;
use flatty::error::ErrorKind;
use flatty::portable::le;
use flatty::prelude::*;
use flatty::vec::Length;
use flatty::{FlatVec, FlexVec};

// ------------------------------------------------------------------------------------------------ reference side

#[derive(Clone, Copy)]
enum En {
    Ne,
    Le,
}

#[derive(Clone, Copy)]
enum Item {
    /// sized item: (size, align); every bit pattern valid
    Sized(usize, usize),
    /// FlatVec<u8,u8>: [n][n bytes ...]; valid iff n <= available - 1; used = 1 + n
    VecU8U8,
}

#[derive(Clone, Copy)]
struct Fmt {
    l_size: usize,
    l_align: usize,
    l_en: En,
    item: Item,
}

impl Fmt {
    const fn item_align(&self) -> usize {
        match self.item {
            Item::Sized(_, a) => a,
            Item::VecU8U8 => 1,
        }
    }
    /// smallest payload
    const fn item_min(&self) -> usize {
        match self.item {
            Item::Sized(s, _) => s,
            Item::VecU8U8 => 1,
        }
    }
    const fn slot(&self) -> usize {
        if self.l_size > self.item_align() { self.l_size } else { self.item_align() }
    }
    const fn align(&self) -> usize {
        if self.l_align > self.item_align() { self.l_align } else { self.item_align() }
    }
    const fn l_max(&self) -> usize {
        match self.l_size {
            1 => 0xff,
            2 => 0xffff,
            _ => 0xffff_ffff,
        }
    }
}

const F_U8_U8: Fmt = Fmt { l_size: 1, l_align: 1, l_en: En::Ne, item: Item::Sized(1, 1) };
const F_U16_U8: Fmt = Fmt { l_size: 1, l_align: 1, l_en: En::Ne, item: Item::Sized(2, 2) };
const F_U32_U16: Fmt = Fmt { l_size: 2, l_align: 2, l_en: En::Ne, item: Item::Sized(4, 4) };
const F_U8_LE16: Fmt = Fmt { l_size: 2, l_align: 1, l_en: En::Le, item: Item::Sized(1, 1) };
const F_VEC_U8: Fmt = Fmt { l_size: 1, l_align: 1, l_en: En::Ne, item: Item::VecU8U8 };

fn rd_l(b: &[u8], at: usize, f: &Fmt) -> usize {
    match (f.l_size, f.l_en) {
        (1, _) => b[at] as usize,
        (2, En::Ne) => u16::from_ne_bytes([b[at], b[at + 1]]) as usize,
        (2, En::Le) => u16::from_le_bytes([b[at], b[at + 1]]) as usize,
        (_, En::Ne) => u32::from_ne_bytes([b[at], b[at + 1], b[at + 2], b[at + 3]]) as usize,
        (_, En::Le) => u32::from_le_bytes([b[at], b[at + 1], b[at + 2], b[at + 3]]) as usize,
    }
}

/// bytes used by a valid item whose payload starts at `p` and may use `avail` bytes; None = not a valid item
fn item_used(b: &[u8], p: usize, avail: usize, f: &Fmt) -> Option<usize> {
    match f.item {
        Item::Sized(s, a) => {
            if avail >= s && p % a == 0 { Some(s) } else { None }
        }
        Item::VecU8U8 => {
            if avail >= 1 && (b[p] as usize) <= avail - 1 { Some(1 + b[p] as usize) } else { None }
        }
    }
}

/// reference view of a byte image: at most M items
#[derive(Clone, Copy)]
struct Chain<const M: usize> {
    /// well-formed: chain terminated inside the mapped bytes, every item valid, every offset a multiple of ALIGN
    ok: bool,
    cnt: usize,
    /// slot position of item k (payload at slot + SLOT)
    slot: [usize; M],
    /// payload bytes the item may use (its capacity): up to the next slot / the end of the mapped bytes
    avail: [usize; M],
    /// payload bytes in use
    used: [usize; M],
    /// last item carries L::MAX
    open: bool,
    /// reference extent: end of used data (terminator slot included) rounded up to ALIGN
    end: usize,
}

fn walk<const M: usize>(b: &[u8], len: usize, f: &Fmt) -> Chain<M> {
    let slot = f.slot();
    let a = f.align();
    let usable = floor_to(len, a);
    let mut c = Chain::<M> { ok: false, cnt: 0, slot: [0; M], avail: [0; M], used: [0; M], open: false, end: 0 };
    let mut pos = 0usize;
    let mut done = false;
    let mut k = 0;
    while k < M + 1 {
        if !done {
            if pos + f.l_size > usable {
                done = true; // chain runs off the mapped bytes
            } else {
                let o = rd_l(b, pos, f);
                if o == 0 {
                    c.ok = pos + slot <= usable;
                    c.end = pos + slot;
                    done = true;
                } else if o == f.l_max() {
                    if k < M && pos + slot <= usable {
                        if let Some(u) = item_used(b, pos + slot, usable - (pos + slot), f) {
                            c.slot[k] = pos;
                            c.avail[k] = usable - (pos + slot);
                            c.used[k] = u;
                            c.cnt = k + 1;
                            c.open = true;
                            c.end = pos + slot + ceil_to(u, a);
                            c.ok = c.end <= usable;
                        }
                    }
                    done = true;
                } else {
                    let mut good = false;
                    if k < M && o >= slot && o % a == 0 && pos + o <= usable {
                        if let Some(u) = item_used(b, pos + slot, o - slot, f) {
                            c.slot[k] = pos;
                            c.avail[k] = o - slot;
                            c.used[k] = u;
                            c.cnt = k + 1;
                            pos += o;
                            good = true;
                        }
                    }
                    if !good { done = true; }
                }
            }
        }
        k += 1;
    }
    c
}

fn snap<const N: usize>(b: &[u8]) -> [u8; N] {
    let mut s = [0u8; N];
    let mut i = 0;
    while i < N {
        if i < b.len() { s[i] = b[i]; }
        i += 1;
    }
    s
}

/// bytes [from, to) equal in both images
fn same_bytes<const N: usize>(x: &[u8], y: &[u8], from: usize, to: usize) -> bool {
    let mut same = true;
    let mut i = 0;
    while i < N {
        if i >= from && i < to && x[i] != y[i] { same = false; }
        i += 1;
    }
    same
}

/// item k of (x, cx) has the same contents (used payload bytes) as item k of (y, cy)
fn same_item<const N: usize, const M: usize>(x: &[u8], cx: &Chain<M>, y: &[u8], cy: &Chain<M>, k: usize, f: &Fmt) -> bool {
    let px = cx.slot[k] + f.slot();
    let py = cy.slot[k] + f.slot();
    let mut same = cx.used[k] == cy.used[k];
    let mut i = 0;
    while i < N {
        if i < cx.used[k] && same && x[px + i] != y[py + i] { same = false; }
        i += 1;
    }
    same
}

/// the first `n` items of the two views are the same sequence
fn same_prefix<const N: usize, const M: usize>(x: &[u8], cx: &Chain<M>, y: &[u8], cy: &Chain<M>, n: usize, f: &Fmt) -> bool {
    let mut same = true;
    let mut k = 0;
    while k < M {
        if k < n && same && !same_item::<N, M>(x, cx, y, cy, k, f) { same = false; }
        k += 1;
    }
    same
}

/// sized item value as integer
trait Val: Flat + Sized + Copy + kani::Arbitrary + Default {
    fn v(&self) -> u64;
}
impl Val for u8 {
    fn v(&self) -> u64 { *self as u64 }
}
impl Val for u16 {
    fn v(&self) -> u64 { *self as u64 }
}
impl Val for u32 {
    fn v(&self) -> u64 { *self as u64 }
}

/// native-endian item value at payload position p
fn rd_item(b: &[u8], p: usize, f: &Fmt) -> u64 {
    match f.item {
        Item::Sized(1, _) => b[p] as u64,
        Item::Sized(2, _) => u16::from_ne_bytes([b[p], b[p + 1]]) as u64,
        _ => u32::from_ne_bytes([b[p], b[p + 1], b[p + 2], b[p + 3]]) as u64,
    }
}

// ------------------------------------------------------------------------------------------- common step postlude

/// what the operation is allowed to have done, relative to the pre-state
/// `keep` items survive unchanged as items 0..keep of the new sequence whose length must be `cnt2`.
/// C14 frame: every byte before the slot of item keep-1 is unchanged, the used payload of item keep-1 is unchanged,
/// and the bytes between the mapped part and the end of the slice are unchanged.
fn step_post<T: Flat + ?Sized, L: Flat + Length, const N: usize, const M: usize>(
    b: &[u8],
    len: usize,
    pre: &[u8; N],
    c: &Chain<M>,
    keep: usize,
    cnt2: usize,
    f: &Fmt,
) -> Chain<M> {
    // the bytes re-map to the model sequence (reference wf ==> validate() accepts: `accept` harnesses)
    let c2 = walk::<M>(b, len, f);
    assert!(c2.ok, "C12/C13: chain malformed after the step");
    assert!(c2.cnt == cnt2, "C12/C13: wrong number of items after the step");
    assert!(same_prefix::<N, M>(pre, c, b, &c2, keep, f), "C12/C13: a surviving item changed its contents");
    // C14
    if keep > 0 {
        assert!(same_bytes::<N>(pre, b, 0, c.slot[keep - 1]), "C14: bytes of earlier items modified");
        let p = c.slot[keep - 1] + f.slot();
        assert!(same_bytes::<N>(pre, b, p, p + c.used[keep - 1]), "C14: payload of the neighbouring item modified");
    }
    assert!(same_bytes::<N>(pre, b, floor_to(len, f.align()), len), "C14: bytes after the mapped part modified");
    c2
}

// ------------------------------------------------------------------------------------------------ sized items

/// accept: validate() accepts exactly the byte strings the reference walk accepts (so "reference wf after the step"
/// in the step harnesses means "the bytes validate after the step")
fn chk_accept<T: Flat + ?Sized, L: Flat + Length, const N: usize, const M: usize>(f: Fmt) {
    let (len, off) = any_len_off(N, f.align());
    kani::assume(off == 0);
    let b = sym_slice(len, f.align(), off, N);
    let c = walk::<M>(b, len, &f);
    let r = FlexVec::<T, L>::validate(b);
    if c.ok { assert!(r.is_ok(), "C12: a well-formed chain does not validate"); }
    if r.is_ok() { assert!(c.ok, "C12: library accepts a byte string the reference chain walk rejects"); }
    kani::cover!(c.ok && c.cnt == M);
}

/// view: len / is_empty / iter == reference view; accepted ==> wf
fn chk_view<T: Val, L: Flat + Length, const N: usize, const M: usize>(f: Fmt) {
    let (len, off) = any_len_off(N, f.align());
    kani::assume(off == 0);
    let b = sym_slice(len, f.align(), off, N);
    let pre: [u8; N] = snap::<N>(b);
    let v = match FlexVec::<T, L>::from_mut_bytes(b) {
        Ok(v) => v,
        Err(_) => return,
    };
    let c = walk::<M>(&pre, len, &f);
    assert!(c.ok, "C12: library accepts a byte string the reference chain walk rejects");
    assert!(v.len() == c.cnt, "C12: len() differs from the reference item count");
    assert!(v.is_empty() == (c.cnt == 0), "C12: is_empty() differs");
    let mut it = v.iter();
    let mut k = 0;
    while k < M + 1 {
        let x = it.next();
        if k < c.cnt {
            assert!(x.is_some(), "C12: iter() ends early");
            assert!(x.unwrap().v() == rd_item(&pre, c.slot[k] + f.slot(), &f), "C12: iter() yields a different item");
        } else {
            assert!(x.is_none(), "C12: iter() yields extra items");
        }
        k += 1;
    }
    kani::cover!(c.cnt == M);
    kani::cover!(c.cnt > 0 && c.open);
    kani::cover!(c.cnt > 0 && !c.open);
}

/// C05: size() == reference extent <= mapped bytes; the size() prefix maps to the same content and size()
fn chk_size<T: Val, L: Flat + Length, const N: usize, const M: usize>(f: Fmt) {
    let (len, off) = any_len_off(N, f.align());
    kani::assume(off == 0);
    let b = sym_slice(len, f.align(), off, N);
    let pre: [u8; N] = snap::<N>(b);
    let v = match FlexVec::<T, L>::from_bytes(b) {
        Ok(v) => v,
        Err(_) => return,
    };
    let c = walk::<M>(&pre, len, &f);
    let s = v.size();
    assert!(s <= len, "C05: size() exceeds the mapped bytes");
    assert!(c.ok, "C12: library accepts a byte string the reference chain walk rejects");
    assert!(s == c.end, "C05: size() differs from the reference extent");
    assert!(s % f.align() == 0, "C05: size() is not a multiple of ALIGN");
    let p = FlexVec::<T, L>::from_bytes(&b[..s]);
    assert!(p.is_ok(), "C05: the size() prefix does not map");
    let p = p.unwrap();
    assert!(p.size() == s, "C05: the size() prefix reports a different size()");
    let c2 = walk::<M>(&pre, s, &f);
    assert!(c2.ok && c2.cnt == c.cnt && same_prefix::<N, M>(&pre, &c, &pre, &c2, c.cnt, &f), "C05: prefix content differs");
    assert!(p.len() == c.cnt, "C05: the size() prefix has a different length");
}

fn start<'a, T: Flat + ?Sized, L: Flat + Length, const N: usize, const M: usize>(
    f: &Fmt,
) -> Option<(&'a mut [u8], usize, [u8; N], Chain<M>)> {
    let (len, off) = any_len_off(N, f.align());
    kani::assume(off == 0);
    let b = sym_slice(len, f.align(), off, N);
    let pre: [u8; N] = snap::<N>(b);
    let c = walk::<M>(&pre, len, f);
    // reachable states satisfy the reference wf (re-established by every step harness); accepted ==> wf is checked
    // by the view harnesses
    kani::assume(c.ok);
    Some((b, len, pre, c))
}

fn chk_pop<T: Flat + ?Sized, L: Flat + Length, const N: usize, const M: usize>(f: Fmt) {
    let (b, len, pre, c) = match start::<T, L, N, M>(&f) {
        Some(x) => x,
        None => return,
    };
    let v = unsafe { FlexVec::<T, L>::from_mut_bytes_unchecked(b) };
    let r = v.pop();
    assert!(r.is_ok() == (c.cnt > 0), "C12: pop result");
    let cnt2 = if c.cnt > 0 { c.cnt - 1 } else { 0 };
    step_post::<T, L, N, M>(b, len, &pre, &c, cnt2, cnt2, &f);
    kani::cover!(c.cnt == 0);
    kani::cover!(c.cnt == 1);
    kani::cover!(c.cnt >= 2 && c.open);
    kani::cover!(c.cnt >= 2 && !c.open);
}

fn chk_truncate<T: Flat + ?Sized, L: Flat + Length, const N: usize, const M: usize>(f: Fmt) {
    let (b, len, pre, c) = match start::<T, L, N, M>(&f) {
        Some(x) => x,
        None => return,
    };
    let n: usize = kani::any();
    let v = unsafe { FlexVec::<T, L>::from_mut_bytes_unchecked(b) };
    v.truncate(n); // must not panic for any n
    let cnt2 = if n < c.cnt { n } else { c.cnt };
    step_post::<T, L, N, M>(b, len, &pre, &c, cnt2, cnt2, &f);
    kani::cover!(n == 0 && c.cnt > 0);
    kani::cover!(n > 0 && n < c.cnt);
    kani::cover!(n == c.cnt && n > 0);
    kani::cover!(n > c.cnt);
}

fn chk_clear<T: Flat + ?Sized, L: Flat + Length, const N: usize, const M: usize>(f: Fmt) {
    let (b, len, pre, c) = match start::<T, L, N, M>(&f) {
        Some(x) => x,
        None => return,
    };
    let v = unsafe { FlexVec::<T, L>::from_mut_bytes_unchecked(b) };
    v.clear();
    step_post::<T, L, N, M>(b, len, &pre, &c, 0, 0, &f);
    assert!(b[0] == 0 || len == 0, "C12: clear() does not leave an empty chain");
    kani::cover!(c.cnt > 1);
}

/// position where a pushed item's slot goes and whether slot + smallest payload `need` fit
fn push_room<const M: usize>(c: &Chain<M>, len: usize, need: usize, f: &Fmt) -> (usize, bool) {
    let usable = floor_to(len, f.align());
    let at = if c.open { c.end } else { c.end - f.slot() };
    (at, at + f.slot() + need <= usable)
}

/// push of a sized value (`dflt`: push_default).  C12 on Ok, C13 on Err, C14 both.
fn chk_push<T: Val, L: Flat + Length, const N: usize, const M: usize>(f: Fmt, dflt: bool) {
    let (b, len, pre, c) = match start::<T, L, N, M>(&f) {
        Some(x) => x,
        None => return,
    };
    let x: T = if dflt { T::default() } else { kani::any() };
    let (at, fits) = push_room::<M>(&c, len, f.item_min(), &f);
    let v = unsafe { FlexVec::<T, L>::from_mut_bytes_unchecked(b) };
    let r = if dflt { v.push_default() } else { v.push(x) };
    let ok = match r {
        Ok(p) => {
            assert!(p.v() == x.v(), "C12: push returns a different item");
            true
        }
        Err(e) => {
            assert!(e.kind == ErrorKind::InsufficientSize, "C13: a refused push reports something other than InsufficientSize");
            false
        }
    };
    assert!(ok == fits, "C12: push accepted without room / refused although slot and payload fit");
    assert!(!ok || c.cnt < M, "C12: push accepted without room");
    // Ok: one more item (C12); Err: same sequence (C13); both: the old items keep their bytes (C14)
    let c2 = step_post::<T, L, N, M>(b, len, &pre, &c, c.cnt, if ok { c.cnt + 1 } else { c.cnt }, &f);
    if ok {
        assert!(c2.slot[c.cnt] == at, "C12: new item not placed right behind the used data");
        assert!(c2.used[c.cnt] == f.item_min() && rd_item(b, at + f.slot(), &f) == x.v(), "C12: pushed item has different contents");
    } else {
        assert!(c2.end == c.end, "C13: size() changed by a refused push");
    }
    let usable = floor_to(len, f.align());
    kani::cover!(ok && c.cnt == 0);
    kani::cover!(ok && c.cnt > 0 && c.open);
    kani::cover!(ok && c.cnt > 0 && !c.open);
    kani::cover!(!ok && c.open && c.end == usable); // buffer exactly full
    kani::cover!(!ok && !c.open); // terminator slot present, payload does not fit
    kani::cover!(!ok && c.open && c.end + f.slot() <= usable); // slot fits but payload does not
}

/// in-place edit of item j through iter_mut(): only that item's payload changes
fn chk_edit<T: Val, L: Flat + Length, const N: usize, const M: usize>(f: Fmt) {
    let (b, len, pre, c) = match start::<T, L, N, M>(&f) {
        Some(x) => x,
        None => return,
    };
    let j: usize = kani::any();
    kani::assume(j < c.cnt);
    let x: T = kani::any();
    let v = unsafe { FlexVec::<T, L>::from_mut_bytes_unchecked(b) };
    {
        let mut it = v.iter_mut();
        let mut k = 0;
        while k < M {
            if k <= j {
                let r = it.next();
                if k == j { *r.unwrap() = x; }
            }
            k += 1;
        }
    }
    let c2 = walk::<M>(b, len, &f);
    assert!(c2.ok && c2.cnt == c.cnt, "C12: item edit changed the item count");
    let p = c.slot[j] + f.slot();
    assert!(rd_item(b, p, &f) == x.v(), "C12: edited item does not hold the new value");
    // C14 / C12 "editing one item never changes another": every byte outside the edited payload is unchanged
    assert!(same_bytes::<N>(&pre, b, 0, p), "C14: bytes before the edited payload modified");
    assert!(same_bytes::<N>(&pre, b, p + f.item_min(), len), "C14: bytes after the edited payload modified");
    kani::cover!(j == 0 && c.cnt > 1);
    kani::cover!(j + 1 == c.cnt && c.cnt > 1);
}

// ---- FlexVec<u8, u8>: BOUNDED buffer <= 5 bytes (<= 2 items); unwind 7 > 5 + 1 byte-loop iterations
macro_rules! flex_sized {
    ($name:ident, $chk:ident, $T:ty, $L:ty, $N:literal, $M:literal, $unw:literal, $($arg:expr),*) => {
        #[kani::proof]
        #[kani::unwind($unw)]
        fn $name() {
            $chk::<$T, $L, $N, $M>($($arg),*);
        }
    };
}
flex_sized!(c12_flex_u8_u8_accept, chk_accept, u8, u8, 5, 2, 7, F_U8_U8);
flex_sized!(c12_flex_u8_u8_view, chk_view, u8, u8, 5, 2, 7, F_U8_U8);
flex_sized!(c05_flex_u8_u8_size, chk_size, u8, u8, 5, 2, 7, F_U8_U8);
flex_sized!(c12_flex_u8_u8_pop, chk_pop, u8, u8, 5, 2, 7, F_U8_U8);
flex_sized!(c12_flex_u8_u8_truncate, chk_truncate, u8, u8, 5, 2, 7, F_U8_U8);
flex_sized!(c12_flex_u8_u8_clear, chk_clear, u8, u8, 5, 2, 7, F_U8_U8);
flex_sized!(c12_flex_u8_u8_push, chk_push, u8, u8, 5, 2, 7, F_U8_U8, false);
// push_default (same step with T::default()): CBMC ran out of memory on the shared machine (ok/fail unknown) -- not registered
// flex_sized!(c12_flex_u8_u8_push_default, chk_push, u8, u8, 5, 2, 7, F_U8_U8, true);
flex_sized!(c12_flex_u8_u8_edit, chk_edit, u8, u8, 5, 2, 7, F_U8_U8);
// ---- FlexVec<u16, u8> (slot padded to 2 bytes, ALIGN 2): BOUNDED buffer <= 8 bytes (<= 2 items); unwind 10
flex_sized!(c12_flex_u16_u8_accept, chk_accept, u16, u8, 8, 2, 10, F_U16_U8);
// (a u16/u8 push step at N = 8 ran CBMC out of memory next to 3 parallel jobs on the shared machine: not registered)
