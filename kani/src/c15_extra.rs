//! C01 / C02 / C04 / C05 / C14 / C15 on an unsized enum whose variants have THREE fields with padding before the middle one
//! (the per-variant size gate `TypeIter::min_size`, the position walk and `fold_size` all have a non-trivial middle step).
use crate::corpus::*;
use crate::reference::*;
use crate::util::*;
use flatty::error::ErrorKind;
use flatty::prelude::*;
use flatty::{flat_vec, FlatVec};

// reference layout (C rule): tag u8 @0, ALIGN 4, payload @4;  B: u8@4, u32@8, u8@12 -> end 13 -> size 16;
// C: id u8@4, key u16@6, items FlatVec<u8,u8>@8 (len @8, data @9) -> min end 9 -> rounded 12
const ALIGN: usize = 4;

/// every buffer length and misalignment: new_in_place of B / C either reports the right error or writes exactly the reference
/// image inside the slice (canaries around it)
#[kani::proof]
#[kani::unwind(34)]
fn c15_uenum3_new_in_place() {
    const N: usize = 18; // BOUNDED: slice <= 18 bytes inside a 32-byte backing array
    let mut back: [u8; 32] = kani::any();
    let orig = back;
    let (len, off) = any_len_off(N, ALIGN);
    let which: u8 = kani::any();
    kani::assume(which < 2);
    let (x, y, z): (u8, u32, u8) = (kani::any(), kani::any(), kani::any());
    let key: u16 = kani::any();
    let k: usize = kani::any();
    kani::assume(k <= 2);
    let e: [u8; 2] = kani::any();
    let base = 8 + off;
    // the backing array is 8-aligned (u64-aligned locals are not guaranteed: assume it)
    kani::assume((back.as_ptr() as usize) % 8 == 0);
    let res = {
        let b = &mut back[base..base + len];
        if which == 0 {
            UEnum3::new_in_place(b, UEnum3InitB(x, y, z)).map(|v| v.size())
        } else {
            UEnum3::new_in_place(b, UEnum3InitC { id: x, key, items: flatty::vec::FromIterator(e.into_iter().take(k)) }).map(|v| v.size())
        }
    };
    let need = if which == 0 { 16 } else { ceil_to(9 + k, 4) };
    if off != 0 {
        assert!(matches!(res, Err(ref er) if er.kind == ErrorKind::BadAlign), "C15: misaligned buffer is not refused with BadAlign");
    } else if floor_to(len, 4) < need {
        assert!(matches!(res, Err(ref er) if er.kind == ErrorKind::InsufficientSize), "C15: too small buffer is not refused with InsufficientSize");
    } else {
        assert!(res.is_ok(), "C15: aligned buffer that can hold the content is refused");
        let b = &back[base..base + len];
        assert!(res.unwrap() == need, "C05: size() differs from the reference extent");
        if which == 0 {
            assert!(b[0] == 1 && b[4] == x && rd_u32(b, 8) == y && b[12] == z, "C03,C04: image differs from the reference encoding");
        } else {
            assert!(b[0] == 2 && b[4] == x && rd_u16(b, 6) == key && b[8] as usize == k, "C03,C04: image differs from the reference encoding");
            let mut i = 0;
            while i < 2 { if i < k { assert!(b[9 + i] == e[i], "C03: element differs from the reference encoding"); } i += 1; }
        }
        assert!(UEnum3::validate(b).is_ok(), "C03: emplaced value does not validate");
    }
    // C14: nothing outside the slice was modified
    let mut i = 0;
    while i < 32 {
        if i < base || i >= base + len { assert!(back[i] == orig[i], "C14: a byte outside the slice handed to the library was modified"); }
        i += 1;
    }
}

/// any byte string: totality, consistent view, size() inside the mapped bytes and equal to the reference extent
#[kani::proof]
#[kani::unwind(20)]
fn c01_uenum3() {
    const N: usize = 17; // BOUNDED: buffer <= 17 bytes
    let back: [u8; 24] = kani::any();
    kani::assume((back.as_ptr() as usize) % 8 == 0);
    let len: usize = kani::any();
    kani::assume(len <= N);
    let b = &back[..len];
    if let Ok(v) = UEnum3::from_bytes(b) {
        assert!(core::mem::size_of_val(v) <= len, "C04: mapped value claims more bytes than the slice");
        let s = v.size();
        assert!(s <= len && s % 4 == 0, "C05,C10: size() exceeds the mapped bytes or is not a multiple of ALIGN");
        match v.as_ref() {
            UEnum3Ref::A => { assert!(b[0] == 0, "C02: variant differs from the tag byte"); assert!(s == 4, "C05: size() differs from the reference extent"); }
            UEnum3Ref::B(x, y, z) => {
                assert!(b[0] == 1 && *x == b[4] && *y == rd_u32(b, 8) && *z == b[12], "C02,C04: field differs from the reference decoding");
                assert!(s == 16, "C05: size() differs from the reference extent");
            }
            UEnum3Ref::C { id, key, items } => {
                assert!(b[0] == 2 && *id == b[4] && *key == rd_u16(b, 6), "C02,C04: field differs from the reference decoding");
                assert!(items.len() == b[8] as usize && items.len() <= items.capacity(), "C02,C10: tail differs from the reference decoding (len > capacity in an accepted view)");
                assert!(s == ceil_to(9 + items.len(), 4), "C05: size() differs from the reference extent");
            }
        }
        // C05: the first size() bytes re-map to the same value
        let again = UEnum3::from_bytes(&b[..s]);
        assert!(again.is_ok(), "C05: the first size() bytes do not validate");
        assert!(again.unwrap().size() == s, "C05: re-mapped value has a different size()");
    } else if len >= 4 && b[0] > 2 {
        let e = UEnum3::from_bytes(b).err().unwrap();
        assert!(e.kind == ErrorKind::InvalidEnumTag, "C02: wrong error kind for a bad tag");
        assert!(e.pos == 0, "C19: tag error not reported at the tag byte");
    }
}

/// C18: assigning a larger variant whose variant gate passes but whose container field then fails must leave a VALID value
/// (whatever variant it is).  The old variant B(u8, Bool) has a constrained byte exactly where C's `offset` is written, so an
/// initialiser that writes fields before (or without) switching the tag leaves an invalid Bool behind.
#[kani::proof]
#[kani::unwind(16)]
fn c18_uenumb_valid_after_failed_field() {
    // BOUNDED: 12-byte buffer, current value any valid B(x, flag); replacement C { offset, bytes: 3 items } (does not fit)
    let mut back: [u8; 16] = kani::any();
    kani::assume((back.as_ptr() as usize) % 8 == 0);
    let x: u8 = kani::any();
    let flag: bool = kani::any();
    let offset: u32 = kani::any();
    let e: [u8; 3] = kani::any();
    let b = &mut back[..12];
    let cur = UEnumB::new_in_place(b, UEnumBInitB(x, flatty::portable::Bool::from(flag))).unwrap();
    let r = cur.assign_in_place(UEnumBInitC { offset, bytes: flatty::vec::FromArray(e) }).map(|_| ());
    assert!(r.is_err(), "C18: a replacement that cannot fit was accepted");
    assert!(UEnumB::validate(cur.as_bytes()).is_ok(), "C18: target bytes no longer validate after a failed assignment");
    let _ = cur.size();
    match cur.as_ref() {
        UEnumBRef::A => {}
        UEnumBRef::B(p, q) => { let _ = (*p, bool::from(*q)); }
        UEnumBRef::C { offset: o, bytes } => { assert!(bytes.len() <= bytes.capacity(), "C18: invalid container left behind"); let _ = *o; }
    }
    // a second assignment is clean
    let r2 = cur.assign_in_place(UEnumBInitA).map(|_| ());
    assert!(r2.is_ok(), "C18: a second assignment after a failed one does not succeed");
}

/// C20: default_in_place of sized types whose Default is not all-zero, and of an unsized enum whose #[default] variant is
/// neither the first nor the only unit variant: the documented default, whatever the buffer held before
#[kani::proof]
#[kani::unwind(12)]
fn c20_nonzero_defaults() {
    // BOUNDED: one buffer per type (8 bytes), prior contents symbolic; loop-free library code: complete for these definitions
    let mut back: [u8; 8] = kani::any();
    kani::assume((back.as_ptr() as usize) % 8 == 0);
    {
        let v = CEnumD::default_in_place(&mut back[..1]).unwrap();
        assert!(*v == CEnumD::B && *v == CEnumD::default(), "C20: default_in_place differs from Default::default()");
    }
    assert!(back[0] == 1, "C20: default image of the enum is not the #[default] variant's tag");
    {
        let v = SDef::default_in_place(&mut back[..6]).unwrap();
        assert!(*v == SDef::default(), "C20: default_in_place differs from Default::default()");
        assert!(v.a == 7 && v.b == 0x1234 && v.e == CEnumD::C, "C20: default_in_place differs from Default::default()");
        assert!(SDef::validate(v.as_bytes()).is_ok(), "C20: default value does not validate");
    }
    let mut back2: [u8; 8] = kani::any();
    kani::assume((back2.as_ptr() as usize) % 8 == 0);
    let v = UEnumD::default_in_place(&mut back2[..4]).unwrap();
    assert!(matches!(v.as_ref(), UEnumDRef::Idle), "C20: default variant is not the one marked #[default]");
    assert!(v.size() == 2, "C20: size() is not minimal");
    assert!(UEnumD::validate(v.as_bytes()).is_ok(), "C20: default value does not validate");
    let mut back3: [u8; 8] = kani::any();
    kani::assume((back3.as_ptr() as usize) % 8 == 0);
    let v = UEnumAttr::default_in_place(&mut back3[..4]).unwrap();
    assert!(matches!(v.as_ref(), UEnumAttrRef::Idle), "C20: default variant is not the one marked #[default]");
}

// ---- probes that need a particular shape rather than a large input
use core::marker::PhantomData;
use flatty::portable::{le, Portable};
use flatty::{FlatString, FlexVec};

struct Probe<T>(PhantomData<T>);
trait IsPortableYes { fn is_portable(&self) -> bool { true } }
impl<T: Portable> IsPortableYes for Probe<T> {}
trait IsPortableNo { fn is_portable(&self) -> bool { false } }
impl<T> IsPortableNo for &Probe<T> {}

/// C17: `Portable` is implemented only when EVERY field type is Portable (not merely every generic parameter)
#[kani::proof]
fn c17_portable_requires_portable_fields() {
    // autoref specialisation: resolves to the `Portable` impl only if the bound holds
    assert!(!(&Probe::<Packet<le::U16>>(PhantomData)).is_portable(), "C17: a type with a non-portable field type is Portable");
    assert!(!(&Probe::<Native<u8>>(PhantomData)).is_portable(), "C17: a type not declared portable is Portable");
    assert!((&Probe::<PStruct>(PhantomData)).is_portable(), "C17: a well-formed portable type is not Portable");
    assert!(<PStruct as FlatBase>::ALIGN == 1 && <PUStruct as FlatBase>::ALIGN == 1, "C17: a portable type has ALIGN != 1");
}

/// C17: a FlexVec with a portable (alignment-1) offset type built by FromIterator is the plain concatenation
/// slot, item, slot, item, ... with no filler between items, whatever the buffer held before
#[kani::proof]
#[kani::unwind(12)]
fn c17_flex_from_iterator_le16() {
    // BOUNDED: fixed script (two 1-byte items, then a third), values and prior contents symbolic
    let mut buf: [u8; 11] = kani::any();
    let a: u8 = kani::any();
    let b: u8 = kani::any();
    {
        let v = FlexVec::<u8, le::U16>::new_in_place(&mut buf, flatty::flex::FromIterator::new([a, b])).unwrap();
        assert!(v.len() == 2, "C03: emplaced FlexVec has a different number of items");
        assert!(v.size() == 6, "C05,C17: size() differs from the padding-free extent");
    }
    // reference serialisation: [3,0] a [ff,ff] b   (offset of item 0 = slot 2 + payload 1, little-endian; last item open)
    assert!(buf[0] == 3 && buf[1] == 0 && buf[2] == a && buf[3] == 0xff && buf[4] == 0xff && buf[5] == b,
        "C17: image differs from the reference serialisation (padding or byte order)");
}

/// C11: a FlatString that shrank and grew again (stale bytes of a multi-byte character behind its end) still validates:
/// validity depends on the first len bytes only
#[kani::proof]
#[kani::unwind(12)]
fn c11_string_shrink_regrow_u16() {
    // BOUNDED: fixed history on an 8-byte buffer (length type u16: size() is rounded up past the end of the text)
    let mut back: [u8; 8] = kani::any();
    kani::assume((back.as_ptr() as usize) % 8 == 0);
    let s = FlatString::<u16>::default_in_place(&mut back[..8]).unwrap();
    assert!(s.push('\u{e9}').is_ok(), "C11: a push that fits was refused"); // 2 bytes: c3 a9
    s.clear();
    assert!(s.push('a').is_ok(), "C11: a push that fits was refused");      // now "a" followed by the stale a9
    assert!(s.len() == 1 && s.as_str().as_bytes()[0] == b'a', "C11: contents differ from the String model");
    assert!(s.size() == 4, "C05: size() differs from the reference extent");
    assert!(FlatString::<u16>::validate(s.as_bytes()).is_ok(), "C11: a reachable state does not validate");
}

/// C03: FromIterator emplaces exactly the items the iterator yields, also when its size_hint upper bound is loose
#[kani::proof]
#[kani::unwind(12)]
fn c03_vec_from_filtered_iterator() {
    // BOUNDED: 6-byte buffer (capacity 4), iterator `(0..8).filter(even)` yields 4 items with size_hint (0, Some(8))
    let mut back: [u8; 8] = kani::any();
    kani::assume((back.as_ptr() as usize) % 8 == 0);
    let base: u8 = kani::any();
    kani::assume(base < 100);
    let r = FlatVec::<u8, u16>::new_in_place(&mut back[..6], flatty::vec::FromIterator((0u8..8).filter(|x| x % 2 == 0).map(move |x| x + base)));
    assert!(r.is_ok(), "C03,C15: content that fits exactly was refused");
    let v = r.unwrap();
    assert!(v.len() == 4 && v.as_slice()[0] == base && v.as_slice()[3] == base + 6, "C03: emplaced items differ from the iterator's");
}

/// C01 / C02 / C19 for arrays and vectors whose element stride differs from the element alignment: element i is validated at
/// i * SIZE (not i * ALIGN), and a bad byte is reported at its own offset
#[kani::proof]
#[kani::unwind(10)]
fn c02_array_of_b3() {
    // BOUNDED: [B3; 2] (6 bytes) and FlatVec<B3, u8> in <= 7 bytes, contents symbolic
    let back: [u8; 8] = kani::any();
    let b = &back[..6];
    let r = <[B3; 2]>::validate(b);
    let mut bad: Option<usize> = None;
    let mut i = 0;
    while i < 6 { if bad.is_none() && b[i] > 1 { bad = Some(i); } i += 1; }
    assert!(r.is_ok() == bad.is_none(), "C02: [B3; 2] acceptance differs from 'every Bool byte is 0/1'");
    if let Err(e) = r {
        assert!(e.kind == ErrorKind::InvalidData, "C02: wrong error kind for a bad Bool");
        assert!(e.pos < 6, "C19: error position is not an offending byte");
        assert!(b[e.pos] > 1, "C19: error position is not an offending byte");
    }
    let len: usize = kani::any();
    kani::assume(len <= 7);
    let v = &back[..len];
    let rv = FlatVec::<B3, u8>::validate(v);
    if len >= 1 {
        let n = v[0] as usize;
        let cap = (len - 1) / 3;
        if n > cap { assert!(matches!(rv, Err(ref e) if e.kind == ErrorKind::InsufficientSize), "C02,C06: len > capacity must be InsufficientSize"); }
        else {
            let mut vb: Option<usize> = None;
            let mut k = 0;
            while k < 6 { if k < 3 * n && vb.is_none() && v[1 + k] > 1 { vb = Some(1 + k); } k += 1; }
            assert!(rv.is_ok() == vb.is_none(), "C02: FlatVec<B3,u8> acceptance differs from the reference decoder");
            if let Err(e) = rv { assert!(e.pos >= 1 && e.pos < 1 + 3 * n, "C19: error position is not an offending byte"); assert!(v[e.pos] > 1, "C19: error position is not an offending byte"); }
        }
    }
}

/// C04 / C02: as_bytes() of a sized value covers exactly size_of bytes
#[kani::proof]
fn c04_sized_as_bytes() {
    assert!(SStruct::default().as_bytes().len() == core::mem::size_of::<SStruct>(), "C04,C02: as_bytes() of a sized value is not size_of long");
    assert!(B3::default().as_bytes().len() == 3, "C04,C02: as_bytes() of a sized value is not size_of long");
    assert!(SEnum::default().as_bytes().len() == core::mem::size_of::<SEnum>(), "C04,C02: as_bytes() of a sized value is not size_of long");
    assert!(0u32.as_bytes().len() == 4 && <[u16; 3]>::default().as_bytes().len() == 6, "C04,C02: as_bytes() of a sized value is not size_of long");
    assert!(<B3 as FlatBase>::MIN_SIZE == 3 && <B3 as FlatBase>::ALIGN == 1 && <B3 as FlatSized>::SIZE == 3, "C04: constants of a sized struct differ from rustc's layout");
}


/// C04 (+C03/C05/C14): a four-field unsized struct whose every field offset needs rounding up: constants, image, read-back
#[kani::proof]
#[kani::unwind(10)]
fn c04_uwide_layout() {
    assert!(<UWide as FlatBase>::ALIGN == 8 && <UWide as FlatBase>::MIN_SIZE == 24, "C04: constants of UWide differ from the C layout rule");
    let mut back = [0xEEu8; 56];
    kani::assume((back.as_ptr() as usize) % 8 == 0);
    let (b, x): (u32, u64) = (kani::any(), kani::any());
    {
        let w = UWide::new_in_place(&mut back[8..48], UWideInit { a: 0x11, b, c: 0x33, v: flat_vec![x] }).unwrap();
        assert!(w.a == 0x11 && w.b == b && w.c == 0x33 && w.v.len() == 1 && w.v[0] == x, "C03: read-back differs from what was emplaced");
        assert!(w.v.capacity() == 2, "C04: capacity of the tail vector differs from the C layout rule");
        assert!(w.size() == 32, "C05: size() differs from the reference extent");
    }
    let m = &back[8..48];
    assert!(m[0] == 0x11 && rd_u32(m, 4) == b && m[8] == 0x33 && rd_u32(m, 16) == 1, "C03,C04: image differs from the reference encoding");
    let mut xs = [0u8; 8];
    xs.copy_from_slice(&m[24..32]);
    assert!(u64::from_ne_bytes(xs) == x, "C03,C04: element differs from the reference encoding");
    // padding inside the struct and the bytes around the slice are never written
    assert!(m[1] == 0xEE && m[3] == 0xEE && m[9] == 0xEE && m[15] == 0xEE && m[20] == 0xEE && m[23] == 0xEE, "C14: padding bytes were written");
    assert!(back[7] == 0xEE && back[48] == 0xEE, "C14: bytes outside the slice were written");
    assert!(UWide::validate(m).is_ok(), "C03: emplaced value does not validate");
}


/// C05 / C12: size() follows the offset chain, not the items' current sizes: after an already sealed item has been shrunk in
/// place the extent is unchanged, and the first size() bytes still re-map to the same sequence
#[kani::proof]
#[kani::unwind(12)]
fn c05_flex_size_after_item_shrink() {
    type V = FlexVec<FlatVec<u8, u8>, u8>;
    let mut back = [0u8; 24];
    let (a, b, c): (u8, u8, u8) = (kani::any(), kani::any(), kani::any());
    let size = {
        let v = V::default_in_place(&mut back[..16]).unwrap();
        v.push(flat_vec![a, b]).unwrap();
        v.push(flat_vec![c]).unwrap();
        assert!(v.size() == 7, "C05: size() differs from the reference extent");
        {
            let first = v.iter_mut().next().unwrap();
            assert!(first.pop() == Some(b), "C12: item read-back differs from the model");
        }
        assert!(v.len() == 2, "C12: reported length differs from the model");
        v.size()
    };
    assert!(size == 7, "C05: size() differs from the reference extent after an in-place edit of a sealed item");
    let w = V::from_bytes(&back[..size]).unwrap();
    assert!(w.len() == 2, "C05,C12: the first size() bytes do not re-map to the same sequence");
    let mut it = w.iter();
    let x = it.next().unwrap();
    assert!(x.len() == 1 && x[0] == a, "C05,C12: the first size() bytes do not re-map to the same sequence");
    let y = it.next().unwrap();
    assert!(y.len() == 1 && y[0] == c, "C05,C12: the first size() bytes do not re-map to the same sequence");
}

/// C02 / C19: FlatVec of a sized struct whose alignment (4) exceeds the length type's size (1): the items start at
/// DATA_OFFSET = max(size_of L, align_of T), and validation accepts exactly the images whose items are valid there
#[kani::proof]
#[kani::unwind(8)]
fn c02_vec_of_sbool_u8() {
    let back: [u8; 32] = kani::any();
    kani::assume((back.as_ptr() as usize) % 4 == 0);
    // 4 bytes header (length @0, padding), capacity 2 items of 12 bytes: x @0, flag @2, arr @3..5, y @8
    let b = &back[..28];
    let len = b[0] as usize;
    let item_ok = |o: usize| b[o + 2] <= 1 && b[o + 3] <= 1 && b[o + 4] <= 1;
    let want = len <= 2 && (len < 1 || item_ok(4)) && (len < 2 || item_ok(16));
    let r = FlatVec::<SBool, u8>::validate(b);
    assert!(r.is_ok() == want, "C02: acceptance differs from the reference decoder");
    if let Err(e) = r {
        if len <= 2 {
            // a content error: reported at the first offending byte
            let first_bad = if !(len < 1 || item_ok(4)) { 4 } else { 16 };
            let o = first_bad;
            let at = if b[o + 2] > 1 { o + 2 } else if b[o + 3] > 1 { o + 3 } else { o + 4 };
            assert!(e.kind == ErrorKind::InvalidData && e.pos == at, "C19: content error not reported at the offending byte");
        }
    }
    if let Ok(v) = FlatVec::<SBool, u8>::from_bytes(b) {
        assert!(v.len() == len && v.capacity() == 2, "C02: view inconsistent with what was validated");
    }
}

/// C15 / C11: an array with more items than the length type can count is refused, however large the buffer
#[kani::proof]
#[kani::unwind(260)]
fn c15_vec_u8_u8_from_array_over_lmax() {
    let mut back = [0u8; 320];
    let x: u8 = kani::any();
    let r = FlatVec::<u8, u8>::new_in_place(&mut back[..300], flatty::vec::FromArray([x; 256])).map(|v| v.len());
    assert!(matches!(r, Err(ref e) if e.kind == ErrorKind::InsufficientSize), "C15,C03,C11: content that does not fit is not refused with InsufficientSize");
}

/// C18 / C03: FlexVec FromIterator whose items fill the buffer EXACTLY, followed by one item too many: the assignment fails,
/// and what is left behind is a valid vector of the items that fit
#[kani::proof]
#[kani::unwind(10)]
fn c18_flex_from_iterator_exact_fill() {
    type Item = FlatVec<u8, u8>;
    type V = FlexVec<Item, u8>;
    // BOUNDED: one buffer (8 bytes, prior contents 0xAA), n in {2, 3}
    let mut back = [0xAAu8; 12];
    let three: bool = kani::any();
    let n: usize = if three { 3 } else { 2 };
    let x: u8 = kani::any();
    // every item takes 1 (offset slot) + 1 (length) + 2 (data) = 4 bytes: exactly two fit into 8 bytes
    let r = V::new_in_place(&mut back[..8], flatty::flex::FromIterator::new((0..n).map(|_| flatty::vec::FromArray([x; 2])))).map(|v| v.len());
    if n <= 2 {
        assert!(r == Ok(n), "C03: read-back differs from what was emplaced");
    } else {
        assert!(matches!(r, Err(ref e) if e.kind == ErrorKind::InsufficientSize), "C15: content that does not fit is not refused with InsufficientSize");
    }
    let b = &back[..8];
    assert!(V::validate(b).is_ok(), "C18,C03: the bytes left behind do not validate");
    let v = V::from_bytes(b).unwrap();
    assert!(v.len() == 2 && v.size() <= 8, "C18: the value left behind cannot be inspected / measured");
    let mut it = v.iter();
    let y = it.next().unwrap();
    assert!(y.len() == 2 && y[0] == x && y[1] == x, "C18,C03: item contents differ from what was emplaced");
    let y = it.next().unwrap();
    assert!(y.len() == 2 && y[0] == x && y[1] == x, "C18,C03: item contents differ from what was emplaced");
}

/// C11 / C14 / C05: FlatString with a wide length type mapped on a buffer whose length is not a multiple of the alignment:
/// the capacity is what fits behind the header rounded DOWN, growth beyond it is refused, size() stays inside the buffer
#[kani::proof]
#[kani::unwind(14)]
fn c11_string_u32_odd_buffer() {
    let mut back = [0u8; 16];
    kani::assume((back.as_ptr() as usize) % 4 == 0);
    let c: u8 = kani::any();
    kani::assume(c < 0x80);
    {
        let s = FlatString::<u32>::default_in_place(&mut back[..11]).unwrap();
        assert!(s.capacity() == 4, "C11,C04: capacity differs from the model (room behind the header, rounded down to the alignment)");
        let mut i = 0;
        while i < 4 { assert!(s.push(c as char).is_ok(), "C11: push below the capacity refused"); i += 1; }
        assert!(s.push(c as char).is_err(), "C11,C13: push beyond the capacity accepted");
        assert!(s.len() == 4 && s.size() == 8 && s.size() <= 11, "C11,C05: len / size() differ from the model");
    }
    assert!(back[11] == 0 && back[8] == 0, "C14: bytes outside the mapped string were written");
    assert!(FlatString::<u32>::validate(&back[..11]).is_ok(), "C11: bytes do not validate after the operations");
}

/// C03 / C04: FlatVec with a PORTABLE length type (alignment 1, size 2): the items start behind the whole length word
#[kani::proof]
#[kani::unwind(10)]
fn c03_vec_u8_le16_image() {
    let mut back = [0xEEu8; 12];
    let (a, b, c): (u8, u8, u8) = (kani::any(), kani::any(), kani::any());
    {
        let v = FlatVec::<u8, le::U16>::new_in_place(&mut back[1..9], flat_vec![a, b, c]).unwrap();
        assert!(v.len() == 3 && v.capacity() == 6 && v.size() == 5, "C03,C04,C05: len / capacity / size() differ from the reference layout");
        assert!(v[0] == a && v[1] == b && v[2] == c, "C03: read-back differs from what was emplaced");
    }
    let m = &back[1..9];
    assert!(m[0] == 3 && m[1] == 0 && m[2] == a && m[3] == b && m[4] == c, "C03,C17: image differs from the reference encoding");
    assert!(back[0] == 0xEE && back[9] == 0xEE && m[5] == 0xEE, "C14: bytes outside the value were written");
    assert!(FlatVec::<u8, le::U16>::validate(m).is_ok(), "C03: emplaced value does not validate");
}


/// C04: an unsized enum whose tag is wider than every payload field: ALIGN is the tag's alignment (what rustc gives the value),
/// and the mapped value never covers more than the slice
#[kani::proof]
#[kani::unwind(8)]
fn c04_uenum_wide_tag() {
    assert!(<UEnumW as FlatBase>::ALIGN == 2 && <UEnumW as FlatBase>::MIN_SIZE == 2, "C04: constants of an enum with a wide tag differ from the compiler's layout");
    let mut back = [0u8; 12];
    kani::assume((back.as_ptr() as usize) % 2 == 0);
    let len: usize = kani::any();
    kani::assume(len >= 2 && len <= 9);
    back[0] = 2; // tag C (little-endian u16 on the hosts in scope), empty vector
    let b = &back[..len];
    if let Ok(v) = UEnumW::from_bytes(b) {
        assert!(core::mem::align_of_val(v) == <UEnumW as FlatBase>::ALIGN, "C04: ALIGN differs from align_of_val");
        assert!(core::mem::size_of_val(v) <= len, "C04,C02: the mapped value covers more bytes than the slice");
        assert!(v.size() <= len, "C05: size() exceeds the mapped bytes");
    } else {
        // payload = bytes[2..] floored to ALIGN 2 must hold the vector's length byte
        assert!(len < 4, "C02: a well-formed image is rejected");
    }
}

/// C17 / C03: a FlexVec with a PORTABLE offset type (size 2, alignment 1) filled by push: odd-sized items follow each other
/// without padding, the image is the reference encoding
#[kani::proof]
#[kani::unwind(12)]
fn c17_flex_push_le16() {
    type V = FlexVec<FlatVec<u8, u8>, le::U16>;
    let mut back = [0xEEu8; 16];
    let (a, b, c): (u8, u8, u8) = (kani::any(), kani::any(), kani::any());
    {
        let v = V::default_in_place(&mut back[1..13]).unwrap();
        v.push(flat_vec![a, b]).unwrap();
        v.push(flat_vec![c]).unwrap();
        assert!(v.len() == 2 && v.size() == 9, "C17,C05: len / size() differ from the reference encoding");
    }
    let m = &back[1..13];
    // [offset 5 LE][len 2][a][b] [offset 0xFFFF][len 1][c]
    assert!(m[0] == 5 && m[1] == 0 && m[2] == 2 && m[3] == a && m[4] == b, "C17,C03: image differs from the reference encoding");
    assert!(m[5] == 0xFF && m[6] == 0xFF && m[7] == 1 && m[8] == c, "C17,C03: image differs from the reference encoding (padding between the records?)");
    assert!(V::validate(m).is_ok(), "C17: image does not validate");
}
