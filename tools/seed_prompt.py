#!/usr/bin/env python3
"""print the brief for a seeding sub-agent: property text only + scratch worktree path"""
import json, sys
pid, wt = sys.argv[1], sys.argv[2]
p = [json.loads(l) for l in open('/verif/properties.jsonl') if l.strip()]
p = [x for x in p if x['id'] == pid][0]
mech = '\n'.join('  - %s (%s)' % (m['name'], m['where']) for m in p['anchors'].get('mechanism', []))
print(f"""You are testing how well a verification setup detects regressions. You get ONE semantic property of the Rust library agerasev/flatty and your own scratch git worktree of the repository at {wt} (work ONLY there; never touch /repo or /verif; no network: use `cargo ... --offline`).

PROPERTY {pid}: {p['title']}
Statement: {p['statement']}
Quantifier: {p['quantifier']['text']}
Why tests cannot settle it: {p['why_tests_cant']}
Files involved: {', '.join(p['anchors'].get('files', []))}
Mechanisms the property rests on:
{mech}

TASK: produce TWO different, realistic changes to the library source (each a small patch a plausible refactoring / optimisation / "simplification" could introduce, in DIFFERENT mechanisms or files if possible) such that, with the change applied:
  (a) the workspace still compiles and the ENTIRE existing test suite still passes (`cd {wt} && cargo test --workspace --offline`),
  (b) the property above is violated, and
  (c) the violation needs something SPECIFIC to manifest -- an unusual input (boundary length, particular alignment offset, particular nesting / type instantiation), a multi-step sequence of operations, a fault at a particular point, or two cooperating sites that each look fine alone -- NOT something ordinary use would expose at once.
Do not change test files, Cargo manifests or public signatures; change library code only (any crate of the workspace: base, containers, macros, portable, io, src).

For each change k in (1, 2) write into the directory {wt}/out/k/ :
  - patch.diff : `git diff` of the change against the clean worktree (library source only; must apply with `git apply` on a clean checkout of HEAD),
  - demo.rs    : a self-contained integration-test file (to be copied to `<crate>/tests/demo.rs`, e.g. containers/tests/demo.rs, tests/tests/demo.rs or io/tests/demo.rs -- say which; use only that crate's normal dependencies) whose tests PASS on the clean tree and at least one FAILS (assertion or panic) with the patch applied; put a comment at the top saying where to install it and how to run it,
  - meta.json  : {{"summary": "...what was changed and why it looks innocent...", "needs_to_manifest": "...the specific input / sequence...", "how_to_run_demo": "...exact commands and expected outcome clean vs patched...", "files_touched": [...], "demo_dest": "<crate>/tests/demo.rs", "demo_crate": "<cargo package name, e.g. flatty-containers>"}}.
Verify all of (a), (b), (c) yourself before you finish: clean tree + demo passes; patched tree + demo fails; patched tree + whole suite passes. Leave the worktree CLEAN at the end (git checkout -- . ; remove the installed demo file; keep only the untracked out/ directory). In your final message list, for each change, the one-line summary and the demo result clean vs patched.""")
