#!/usr/bin/env python3
"""development helper: splice one template against a repo tree and run Verus on it.
   usage: tools/unit.py <unit-name> [--repo DIR] [--raw]"""
import json
import os
import sys

HERE = os.path.dirname(os.path.abspath(__file__))
sys.path.insert(0, HERE)
from rsextract import LostAnchor  # noqa
from splice import splice, write_unit  # noqa
from vrun import run_verus  # noqa

ROOT = os.path.dirname(HERE)


def build(unit, repo, workdir=None):
    workdir = workdir or os.path.join(ROOT, '.work', 'units')
    os.makedirs(workdir, exist_ok=True)
    sp = splice(os.path.join(ROOT, 'contracts', unit + '.rs.tmpl'), repo)
    out = os.path.join(workdir, unit + '.rs')
    write_unit(sp, out)
    return out, sp


if __name__ == '__main__':
    unit = sys.argv[1]
    repo = '/repo'
    if '--repo' in sys.argv:
        repo = sys.argv[sys.argv.index('--repo') + 1]
    try:
        out, sp = build(unit, repo)
    except LostAnchor as e:
        print('LOST ANCHOR:', e)
        sys.exit(2)
    try:
        rl = json.load(open(os.path.join(ROOT, 'contracts', 'registry.json')))['units'].get(unit, {}).get('rlimit')
    except Exception:
        rl = None
    res = run_verus(out, rlimit=rl)
    for l in sp.lost:
        print('LOST LABEL [%s]: %s' % (l['label'], l['reason'][:160]))
    print('verified=%d failed=%d wall=%.1fs smt=%sms repo_lines=%d' % (res['verified'], res['failed'], res['wall_s'], res['smt_ms'], sp.repo_lines))
    for e in res['errors']:
        print('ERR [%s] %s @gen:%d %s | %s | clause: %s' % (e['label'], e['kind'], e['gen_line'], e['repo'] or '', e['text'][:100], e['clause'][:120]))
    for e in res['tool_errors']:
        print('TOOL', (e.get('rendered') or e.get('msg'))[:1500])
    if '--raw' in sys.argv:
        print(res['raw_stderr_tail'])
