#!/usr/bin/env python3
"""development aid: for the mutants that survive the test suite AND the Verus units (tools/mutate.py output), run the
full quick checks of the properties that depend on the mutated file and record whether any check raises a VIOLATION.
usage: tools/mutant_triage.py <worktree> <mutants.json> <out.json>"""
import json, os, re, subprocess, sys
ROOT = os.path.dirname(os.path.dirname(os.path.abspath(__file__)))
PROPS = {'containers/src/flex.rs': ['C12', 'C13', 'C18', 'C03'], 'containers/src/vec.rs': ['C15', 'C19', 'C18'],
         'containers/src/string.rs': ['C15', 'C03'], 'base/src/traits.rs': ['C04'], 'base/src/primitive.rs': ['C02', 'C19'],
         'base/src/utils/iter.rs': ['C04'], 'io/src/blocking/io.rs': ['C07'], 'io/src/async_/io.rs': ['C08'],
         'io/src/blocking/recv.rs': ['C10'], 'io/src/blocking/send.rs': ['C09'], 'base/src/utils/mod.rs': ['C04']}
wt, mj, outp = sys.argv[1:4]
ms = [e for e in json.load(open(mj)) if e['survives_tests'] and not e.get('caught_by_verus')]
res = []
for e in ms:
    path = os.path.join(wt, e['file'])
    src = open(path).read()
    pat, rep = e['op'].split(' -> ')
    lines = src.split('\n')
    ln = lines[e['line'] - 1]
    # re-create the mutant: the k-th match on that line is unknown, mutate the first match on the line that reproduces a change
    new = re.sub(pat, rep, ln, count=1)
    if new == ln:
        continue
    lines[e['line'] - 1] = new
    open(path, 'w').write('\n'.join(lines))
    caught = []
    for p in PROPS.get(e['file'], []):
        w = os.path.join(ROOT, '.work', 'triage')
        env = dict(os.environ, VERIF_REPO=wt, VERIF_WORK=w, VERIF_EVID=os.path.join(w, 'evidence'), VERIF_JOBS='6')
        os.makedirs(os.path.join(w, 'evidence'), exist_ok=True)
        r = subprocess.run(['./run', 'check', p, '--tier', 'quick'], cwd=ROOT, env=env, capture_output=True, text=True)
        obs = re.findall(r'^VIOLATION property=\S+ replay=\S+ obligation=(\S+)', r.stdout, re.M)
        if obs:
            caught.append((p, obs[:2]))
            break
    open(path, 'w').write(src)
    e2 = dict(e, caught_by_checks=caught)
    res.append(e2)
    print('%s:%d %-24s %s | %s' % (e['file'], e['line'], e['op'][:24], ('CAUGHT ' + str(caught[0])) if caught else 'MISSED', e['text'][:60]), flush=True)
    json.dump(res, open(outp, 'w'), indent=1)
