#!/bin/bash
# usage: seedrun.sh <ID> <worktree> <outdir> <prop> [more props...]
# 1. confirms the seeded change in the scratch worktree (demo passes clean / fails patched / suite passes patched) and saves it
#    to /verif/seeded/<ID>/;  2. runs the checks of the given properties against the patched worktree (VERIF_REPO), with scratch
#    and evidence redirected so that the real evidence files are not touched.
ID="$1"; WT="$2"; OUT="$3"; shift 3
DEST=$(python3 -c "import json;print(json.load(open('$OUT/meta.json'))['demo_dest'])")
CRATE=$(python3 -c "import json;print(json.load(open('$OUT/meta.json'))['demo_crate'])")
PROP0="$1"
/verif/tools/seed_confirm.sh "$WT" "$OUT" "$DEST" "$CRATE" "$ID" "$PROP0" || exit 9
cd "$WT" && git checkout -q -- . && git apply "$OUT/patch.diff" || exit 9
W=/verif/.work/seed-$ID; mkdir -p $W/evidence
for P in "$@"; do
  cd /verif && VERIF_REPO="$WT" VERIF_WORK=$W VERIF_EVID=$W/evidence ./run check "$P" --tier quick > $W/$P.out 2>&1
  echo "== $ID check $P rc=$?"; grep -E "^(VIOLATION|KNOWN|DEGRADED|INCONCLUSIVE|property=)" $W/$P.out | cut -c1-230 | head -8
done
cd "$WT" && git checkout -q -- .; rm -rf $W/kani-target $W/kani-crate
