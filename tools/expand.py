#!/usr/bin/env python3
"""run the repository's REAL proc-macro on the corpus (kani/src/corpus.rs) and return rustc's expansion.

  expand(root, repo) -> text of `cargo rustc --lib -- -Zunpretty=expanded` for a crate whose lib.rs is the corpus and which
  path-depends on <repo>.  Cached per (repo tree state) in .work/expand/."""
import hashlib
import os
import shutil
import subprocess

CARGO = '''[package]
name = "flatty-verif-corpus"
version = "0.0.0"
edition = "2021"
[lib]
path = "src/lib.rs"
[dependencies]
flatty = { path = "%(repo)s" }
flatty-base = { path = "%(repo)s/base" }
[workspace]
'''


def _tree_hash(repo, root):
    h = hashlib.sha256()
    for sub in ('macros/src', 'base/src', 'containers/src', 'portable/src', 'src'):
        d = os.path.join(repo, sub)
        for dp, dn, fn in sorted(os.walk(d)):
            for f in sorted(fn):
                if f.endswith('.rs'):
                    h.update(open(os.path.join(dp, f), 'rb').read())
    h.update(open(os.path.join(root, 'kani', 'src', 'corpus.rs'), 'rb').read())
    return h.hexdigest()[:16]


def expand(root, repo):
    work = os.path.join(root, '.work', 'expand')
    key = _tree_hash(repo, root)
    # one scratch crate per tree state: concurrent runs against different trees (seeded worktrees) must not see each other's manifest
    os.makedirs(os.path.join(work, 'crate-' + key, 'src'), exist_ok=True)
    out = os.path.join(work, 'expanded-%s.rs' % key)
    if os.path.exists(out) and os.path.getsize(out) > 1000:
        return open(out).read()
    crate = os.path.join(work, 'crate-' + key)
    open(os.path.join(crate, 'Cargo.toml'), 'w').write(CARGO % dict(repo=os.path.abspath(repo)))
    shutil.copy(os.path.join(root, 'kani', 'src', 'corpus.rs'), os.path.join(crate, 'src', 'lib.rs'))
    lock = os.path.join(repo, 'Cargo.lock')
    if not os.path.exists(lock):
        lock = os.path.join(root, 'kani', 'Cargo.lock')  # a scratch worktree has no (git-ignored) lock file
    shutil.copy(lock, os.path.join(crate, 'Cargo.lock'))
    env = dict(os.environ, RUSTC_BOOTSTRAP='1', CARGO_NET_OFFLINE='true')
    p = subprocess.run(['cargo', 'rustc', '--offline', '--lib', '--target-dir', os.path.join(work, 'target'), '--',
                        '-Zunpretty=expanded'], cwd=crate, capture_output=True, text=True, env=env, timeout=900)
    if p.returncode != 0 or len(p.stdout) < 1000:
        raise RuntimeError('macro expansion failed: ' + p.stderr[-1500:])
    shutil.rmtree(crate, ignore_errors=True)
    # keep the cache small: the 12 most recent expansions
    old = sorted((f for f in os.listdir(work) if f.startswith('expanded-')), key=lambda f: os.path.getmtime(os.path.join(work, f)))
    for f in old[:-12]:
        try:
            os.remove(os.path.join(work, f))
        except OSError:
            pass
    tmp = out + '.tmp%d' % os.getpid()
    open(tmp, 'w').write(p.stdout)
    os.replace(tmp, out)
    return p.stdout


if __name__ == '__main__':
    import sys
    root = os.path.dirname(os.path.dirname(os.path.abspath(__file__)))
    print(len(expand(root, sys.argv[1] if len(sys.argv) > 1 else '/repo')))
