"""run Verus on a generated unit, map every diagnostic to a labelled obligation"""
import json
import os
import re
import subprocess
import time

VERIF_ERR = [
    (r'postcondition not satisfied', 'postcondition'),
    (r'precondition not satisfied', 'precondition'),
    (r'assertion failed', 'assertion'),
    (r'possible arithmetic underflow/overflow', 'overflow'),
    (r'possible division by zero', 'div0'),
    (r'decreases not satisfied', 'decreases'),
    (r'invariant not satisfied', 'invariant'),
    (r'loop invariant', 'invariant'),
    (r'index out of bounds', 'index'),
    (r'unreachable|unreached', 'unreachable'),
    (r'unwrap|possible.*None', 'unwrap'),
    (r'could not (prove|show) termination', 'decreases'),
    (r'failed to prove', 'assertion'),
    (r'Resource limit \(rlimit\) exceeded', 'rlimit'),
    (r'recommendation not met', 'recommends'),
    (r'value may be out of range', 'overflow'),
    (r'possible (bit shift|overflow|underflow)', 'overflow'),
    (r'cannot prove', 'assertion'),
]

TRUST_PATTERNS = ['assume(', 'admit(', 'external_body', 'assume_specification', 'external_type_specification',
                  '#[verifier::external', 'axiom', 'uninterp spec fn']


def classify(msg):
    for pat, kind in VERIF_ERR:
        if re.search(pat, msg):
            return kind
    return None


def scan_trusted(lines):
    """every construct in the generated unit that is assumed rather than proved, with the item it applies to"""
    hits = []
    for n, ln in enumerate(lines, 1):
        s = ln.strip()
        if s.startswith('//'):
            continue
        for p in TRUST_PATTERNS:
            if p in s:
                what = s[:160]
                if s.startswith('#['):
                    # an attribute: name the item it sits on
                    for k in range(n, min(n + 4, len(lines))):
                        t = lines[k].strip()
                        if t and not t.startswith('#[') and not t.startswith('//'):
                            what = s + '  ' + t[:150]
                            break
                hits.append(what)
                break
    return sorted(set(hits))


def count_clauses(lines):
    """textual count of contract clauses in the generated unit (requires/ensures/invariant/decreases/assert)"""
    n = 0
    for ln in lines:
        s = ln.strip()
        if s.startswith('//'):
            continue
        n += len(re.findall(r'\b(requires|ensures|invariant|decreases|assert|assert!)\b', s))
    return n


def run_verus(unit_rs, rlimit=None, extra=None, timeout=900):
    cmd = ['verus', os.path.basename(unit_rs), '--output-json', '--time', '--error-format=json',
           '--multiple-errors', '8', '--no-report-long-running']
    if rlimit:
        cmd += ['--rlimit', str(rlimit)]
    if extra:
        cmd += extra
    t0 = time.time()
    try:
        p = subprocess.run(cmd, cwd=os.path.dirname(unit_rs), capture_output=True, text=True, timeout=timeout)
        rc, so, se = p.returncode, p.stdout, p.stderr
    except subprocess.TimeoutExpired as e:
        rc, so, se = 124, (e.stdout or b'').decode() if isinstance(e.stdout, bytes) else (e.stdout or ''), 'TIMEOUT'
    wall = time.time() - t0
    mp = json.load(open(unit_rs + '.map.json'))
    origin, regions = mp['origin'], mp['regions']

    def region_of(gl):
        for r in regions:
            if r['start'] <= gl <= (r['end'] or 10 ** 9):
                return r
        return None

    res = dict(cmd=' '.join(cmd), rc=rc, wall_s=round(wall, 2), errors=[], tool_errors=[], warnings=0,
               verified=0, failed=0, functions=[], smt_ms=0, raw_stderr_tail=se[-4000:])
    try:
        js = json.loads(so[so.index('{'):]) if '{' in so else {}
    except Exception:
        js = {}
    vr = js.get('verification-results', {})
    res['verified'] = vr.get('verified', 0)
    res['failed'] = vr.get('errors', 0)
    res['vir_error'] = vr.get('encountered-vir-error', False)
    tm = js.get('times-ms', {})
    try:
        for mod in tm['smt']['smt-run-module-times']:
            for fb in mod.get('function-breakdown', []):
                res['functions'].append(dict(name=fb['function'], ok=fb['success'], ms=fb['time'], rlimit=fb.get('rlimit')))
        res['smt_ms'] = tm['smt']['total']
        res['verus_total_ms'] = tm['total']
    except Exception:
        pass
    if not vr:
        res['tool_errors'].append(dict(msg='verus produced no verification-results (rc=%s): %s' % (rc, se[-1500:])))
    for ln in se.split('\n'):
        ln = ln.strip()
        if not ln.startswith('{'):
            continue
        try:
            d = json.loads(ln)
        except Exception:
            continue
        if d.get('level') == 'warning':
            res['warnings'] += 1
            continue
        if d.get('level') != 'error':
            continue
        msg = d.get('message', '')
        if msg.startswith('aborting due to'):
            continue
        spans = d.get('spans', [])
        prim = [s for s in spans if s.get('is_primary')] or spans
        gl = prim[0]['line_start'] if prim else 0
        text = prim[0]['text'][0]['text'].strip() if prim and prim[0].get('text') else ''
        # secondary span: the failed clause (for pre/postconditions)
        clause = ''
        for s in spans:
            if not s.get('is_primary') and s.get('text'):
                clause = s['text'][0]['text'].strip()
                clause_line = s['line_start']
                break
        kind = classify(msg)
        reg = region_of(gl)
        org = origin[gl - 1] if 0 < gl <= len(origin) else None
        # contract clauses declared on a trait lie outside the labelled regions: use the span inside the body
        for s in spans:
            l2 = s.get('line_start', 0)
            if reg is None and region_of(l2):
                reg = region_of(l2)
            o2 = origin[l2 - 1] if 0 < l2 <= len(origin) else None
            if (org is None or org[0] != 'repo') and o2 and o2[0] == 'repo':
                org = o2
        ent = dict(msg=msg, kind=kind, gen_line=gl, text=text, clause=clause,
                   label=reg['label'] if reg else None, props=reg['props'] if reg else [],
                   repo=('%s:%d' % (org[1], org[2])) if org and org[0] == 'repo' else None,
                   rendered=(d.get('rendered') or '')[:3000])
        if kind is None or kind == 'rlimit':
            res['tool_errors'].append(ent)
        elif kind == 'recommends':
            pass
        else:
            res['errors'].append(ent)
    return res
