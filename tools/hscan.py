"""scan kani/src/*.rs for harnesses and the properties each one serves.

A harness serves
  * the property named by its function-name prefix (`c11_...` -> C11): that property owns every failure that carries no
    tag (CBMC's own safety checks: out-of-bounds, overflow, a panic inside the library, ...), and
  * every property named by a `"Cxx: ..."` / `"Cxx,Cyy: ..."` tag at the start of an assertion message in its body
    (or in the body of the macro that stamps it): a failed tagged assertion is attributed to the tagged properties only.
Overrides (tier, timeout, args, extra props, skip) come from contracts/harnesses.json keyed by `module::name`.
"""
import json
import os
import re

TAG_RE = re.compile(r'"((?:C\d\d)(?:,\s*C\d\d)*):')


def _fn_body(src, pos):
    i = src.index('{', pos)
    depth = 0
    for k in range(i, len(src)):
        if src[k] == '{':
            depth += 1
        elif src[k] == '}':
            depth -= 1
            if depth == 0:
                return src[i:k + 1]
    return src[i:]


def scan_module(path):
    src = open(path).read()
    mod = os.path.basename(path)[:-3]
    res = {}
    # macro definitions: name -> body
    macros = {}
    for m in re.finditer(r'macro_rules!\s*(\w+)\s*\{', src):
        macros[m.group(1)] = _fn_body(src, m.start())
    macro_spans = [(m.start(), m.start() + len(_fn_body(src, m.start()))) for m in re.finditer(r'macro_rules!\s*(\w+)\s*\{', src)]

    def in_macro(p):
        return any(a <= p < b for a, b in macro_spans)
    for m in re.finditer(r'#\[kani::proof\]((?:\s*#\[[^\]]*\])*)\s*(?:pub\s+)?fn\s+(\w+)', src):
        if in_macro(m.start()):
            continue
        body = _fn_body(src, m.end())
        uw = re.search(r'kani::unwind\((\d+)\)', m.group(1))
        res[m.group(2)] = dict(body=body, unwind=int(uw.group(1)) if uw else None, pre=src[max(0, m.start() - 600):m.start()])
    for mac, mbody in macros.items():
        if '#[kani::proof]' not in mbody:
            continue
        uw = re.search(r'kani::unwind\((\d+)\)', mbody)
        for m in re.finditer(r'^\s*%s!\s*\(\s*(c\d\d_\w+)\s*,' % re.escape(mac), src, re.M):
            res[m.group(1)] = dict(body=mbody, unwind=int(uw.group(1)) if uw else None, pre=mbody[:600])
    out = {}
    for name, d in res.items():
        pm = re.match(r'c(\d\d)_', name)
        default = 'C' + pm.group(1) if pm else None
        tags = set()
        for t in TAG_RE.findall(d['body']):
            tags.update(x.strip() for x in t.split(','))
        # helper functions reachable from the harness (called in its body, or named in the macro invocation that stamps it)
        # and defined in the same file also carry tags: transitive closure over the file's functions
        inv0 = re.search(r'^\s*\w+!\s*\(\s*%s\s*,([^;]*?)\)\s*;' % re.escape(name), src, re.M | re.S)
        todo = [d['body'] + (' ' + inv0.group(1) + '(' if inv0 else '')]
        if inv0:
            todo[0] += ' '.join(w + '(' for w in re.findall(r'\b[a-z_]\w*\b', inv0.group(1)))
        seen_fns = set()
        while todo:
            text = todo.pop()
            for t in TAG_RE.findall(text):
                tags.update(x.strip() for x in t.split(','))
            for callee in set(re.findall(r'\b(\w+)\s*(?:::<[^>]*>)?\(', text)):
                if callee in seen_fns or callee in res:
                    continue
                cm = re.search(r'\bfn\s+%s\b[^{;]*\{' % re.escape(callee), src)
                if cm:
                    seen_fns.add(callee)
                    todo.append(_fn_body(src, cm.start()))
            for mac in set(re.findall(r'\b(\w+)!\s*[\(\[\{]', text)):
                if mac in macros and mac not in seen_fns:
                    seen_fns.add(mac)
                    todo.append(macros[mac])
        bm = re.search(r'BOUNDED[^\n]*', d['pre'] + d['body'])
        any_unwind = 'kani::unwind(' in d['body'] or 'kani::unwind(' in d['pre'][-200:] or d['unwind']
        # the invocation line of a macro-stamped harness carries its bounds: `c05!(name, Type, N, unwind)`
        inv = re.search(r'^\s*\w+!\s*\(\s*%s\s*,([^\n]*)\)' % re.escape(name), src, re.M)
        props = sorted(set(([default] if default else []) + list(tags)))
        bounded = bm.group(0).strip() if bm else None
        if bounded is None and any_unwind:
            bounded = 'unwind %s' % (d['unwind'] if d['unwind'] else 'bound given per invocation')
        if bounded and inv:
            bounded += ' [%s]' % inv.group(1).strip()
        out['%s::%s' % (mod, name)] = dict(name='%s::%s' % (mod, name), default_prop=default, props=props,
                                          unwind=d['unwind'], bounded=bounded)
    return out


def scan(root):
    res = {}
    d = os.path.join(root, 'kani', 'src')
    ov = {}
    p = os.path.join(root, 'contracts', 'harnesses.json')
    if os.path.exists(p):
        ov = json.load(open(p))
    for f in sorted(os.listdir(d)):
        if re.match(r'c\d\d_\w+\.rs$', f) and f[:-3] not in ov.get('_skip_modules', []):
            res.update(scan_module(os.path.join(d, f)))
    for name, o in ov.items():
        if name in res and isinstance(o, dict):
            if o.get('props_add'):
                res[name]['props'] = sorted(set(res[name]['props']) | set(o['props_add']))
            if o.get('props_only'):
                res[name]['props'] = list(o['props_only'])
            for k in ('tier', 'timeout', 'args', 'skip', 'bounded'):
                if k in o:
                    res[name][k] = o[k]
    return res


def failure_props(h, description):
    """properties a failed CBMC check of harness h is attributed to"""
    m = re.match(r'\s*"?((?:C\d\d)(?:,\s*C\d\d)*):', description or '')
    if m:
        return [x.strip() for x in m.group(1).split(',')]
    return [h['default_prop']] if h.get('default_prop') else list(h.get('props', []))


if __name__ == '__main__':
    import sys
    r = scan(os.path.dirname(os.path.dirname(os.path.abspath(__file__))))
    for k, v in sorted(r.items()):
        if len(sys.argv) > 1 and sys.argv[1] not in v['props']:
            continue
        print('%-46s %-22s tier=%-8s %s' % (k, ','.join(v['props']), v.get('tier', 'quick'), v.get('bounded')))
