"""build + run Kani harnesses of /verif/kani against the repository's crates (as built from the working tree)"""
import concurrent.futures
import json
import os
import re
import shutil
import subprocess
import time

CARGO_TOML = '''[package]
name = "flatty-verif-kani"
version = "0.0.0"
edition = "2021"

[lib]
path = "src/lib.rs"

[dependencies]
flatty = { path = "%(repo)s" }
flatty-io = { path = "%(repo)s/io", default-features = false, features = ["blocking", "async", "io"] }
flatty-base = { path = "%(repo)s/base" }
flatty-containers = { path = "%(repo)s/containers" }
flatty-portable = { path = "%(repo)s/portable" }
num-traits = { version = "0.2", default-features = false }
futures = { version = "0.3" }

[workspace]

[lints.rust]
unexpected_cfgs = { level = "allow" }
'''


def prepare_crate(root, repo, crate_dir):
    os.makedirs(crate_dir, exist_ok=True)
    src = os.path.join(crate_dir, 'src')
    if os.path.islink(src) or os.path.exists(src):
        if os.path.islink(src):
            os.unlink(src)
        else:
            shutil.rmtree(src)
    shutil.copytree(os.path.join(root, 'kani', 'src'), src)
    open(os.path.join(crate_dir, 'Cargo.toml'), 'w').write(CARGO_TOML % dict(repo=os.path.abspath(repo)))
    lock = os.path.join(repo, 'Cargo.lock')
    base_lock = os.path.join(root, 'kani', 'Cargo.lock')
    shutil.copy(base_lock if os.path.exists(base_lock) else lock, os.path.join(crate_dir, 'Cargo.lock'))
    os.makedirs(os.path.join(crate_dir, '.cargo'), exist_ok=True)
    open(os.path.join(crate_dir, '.cargo', 'config.toml'), 'w').write('[net]\noffline = true\n')


def parse_kani(out):
    """-> dict(status, checks, failed[], cbmc_s)"""
    res = dict(status='error', checks=0, failed=[], cbmc_s=0.0, covers=dict(sat=0, unsat=0))
    m = re.search(r'\*\* (\d+) of (\d+) failed', out)
    if m:
        res['checks'] = int(m.group(2))
    m = re.search(r'Verification Time: ([0-9.]+)s', out)
    if m:
        res['cbmc_s'] = float(m.group(1))
    m = re.search(r'\*\* (\d+) of (\d+) cover properties satisfied', out)
    if m:
        res['covers'] = dict(sat=int(m.group(1)), total=int(m.group(2)))
    if 'VERIFICATION:- SUCCESSFUL' in out:
        res['status'] = 'ok'
    elif 'VERIFICATION:- FAILED' in out and ('CBMC appears to have run out of memory' in out or 'CBMC failed' in out
                                             or not re.search(r'\*\* [1-9]\d* of \d+ failed', out)):
        # killed / out of memory / crashed solver (no failed check reported): a tool failure, never a verdict
        res['status'] = 'tool-failure'
    elif 'VERIFICATION:- FAILED' in out:
        res['status'] = 'fail'
        # Failed Checks: <desc>\n File: "<file>", line N, in <fn>
        for fm in re.finditer(r'Failed Checks: (.*)\n(?:\s*File: "([^"]*)", line (\d+), in (\S+))?', out):
            res['failed'].append(dict(description=fm.group(1).strip(),
                                      location='%s:%s' % (fm.group(2), fm.group(3)) if fm.group(2) else None,
                                      function=fm.group(4)))
        if not res['failed']:
            for fm in re.finditer(r'Check \d+: (\S+)\n\s*- Status: FAILURE\n\s*- Description: "(.*)"\n\s*- Location: (\S+)', out):
                res['failed'].append(dict(description=fm.group(2), location=fm.group(3), function=fm.group(1)))
        if 'unwinding assertion' in out and any('unwinding' in f['description'] for f in res['failed']) and \
                all('unwinding' in f['description'] for f in res['failed']):
            res['status'] = 'unwind-bound'
    elif 'CBMC timed out' in out or 'TIMEOUT' in out:
        res['status'] = 'timeout'
    return res


def _run_group(cmd, cwd, env, timeout):
    """run cmd in its own process group; on timeout kill only that group (other checks may be running cbmc too)"""
    import signal
    p = subprocess.Popen(cmd, cwd=cwd, env=env, stdout=subprocess.PIPE, stderr=subprocess.PIPE, text=True,
                         start_new_session=True)
    try:
        so, se = p.communicate(timeout=timeout)
        return p.returncode, so, se, False
    except subprocess.TimeoutExpired:
        try:
            os.killpg(p.pid, signal.SIGKILL)
        except Exception:
            pass
        so, se = p.communicate()
        return 124, so or '', se or '', True


def run_one(crate_dir, target_dir, h, timeout):
    name = h['name']
    cmd = ['cargo', 'kani', '--harness', name, '--exact', '--target-dir', target_dir, '--output-format', 'regular']
    cmd += h.get('args', [])
    env = dict(os.environ, CARGO_NET_OFFLINE='true')
    t0 = time.time()
    rc, so, se, timed_out = _run_group(cmd, crate_dir, env, timeout)
    out = ('TIMEOUT\n' if timed_out else '') + so + '\n' + se
    wall = time.time() - t0
    r = parse_kani(out)
    if timed_out:
        r['status'] = 'timeout'
    r.update(name=name, wall_s=round(wall, 1), bounded=h.get('bounded'), tail=out[-3000:] if r['status'] != 'ok' else '')
    if r['status'] == 'fail' and h.get('playback', True):
        r['playback'] = playback(crate_dir, target_dir, h, timeout)
    return r


def playback(crate_dir, target_dir, h, timeout):
    """ask Kani for the concrete values of every kani::any() of the failing trace"""
    cmd = ['cargo', 'kani', '--harness', h['name'], '--exact', '--target-dir', target_dir,
           '-Z', 'concrete-playback', '--concrete-playback=print'] + h.get('args', [])
    env = dict(os.environ, CARGO_NET_OFFLINE='true')
    try:
        p = subprocess.run(cmd, cwd=crate_dir, capture_output=True, text=True, timeout=timeout, env=env)
    except subprocess.TimeoutExpired:
        return None
    out = p.stdout
    m = re.search(r'```\n(.*?)```', out, re.S)
    code = m.group(1) if m else None
    vecs = re.findall(r'vec!\[([0-9, ]*)\]', code or '')
    return dict(harness=h['name'], values=[[int(x) for x in v.split(',') if x.strip()] for v in vecs], test=code)


def run_harnesses(root, repo, harnesses, target_dir, jobs=8, timeout=1500):
    crate_dir = os.path.join(os.path.dirname(target_dir), 'kani-crate')
    prepare_crate(root, repo, crate_dir)
    # build only the modules the requested harnesses live in (a module that is not needed cannot break the build)
    need = set(h['name'].split('::')[0] for h in harnesses) | set(['reference', 'corpus', 'util', 'model'])
    lib = os.path.join(crate_dir, 'src', 'lib.rs')
    keep = []
    for ln in open(lib).read().split('\n'):
        m = re.match(r'\s*(pub )?mod (\w+);', ln)
        if m and m.group(2) not in need:
            if keep and keep[-1].strip() == '#[cfg(kani)]':
                keep.pop()
            continue
        keep.append(ln)
    open(lib, 'w').write('\n'.join(keep))
    t0 = time.time()
    # one build first (shared by every harness), so that a compile error is reported once
    env = dict(os.environ, CARGO_NET_OFFLINE='true')
    b = subprocess.run(['cargo', 'kani', '--only-codegen', '--target-dir', target_dir], cwd=crate_dir,
                       capture_output=True, text=True, env=env)
    results = []
    if b.returncode != 0:
        for h in harnesses:
            results.append(dict(name=h['name'], status='build-error', checks=0, failed=[], wall_s=0, cbmc_s=0,
                                tail=(b.stderr or '')[-3000:]))
    else:
        with concurrent.futures.ThreadPoolExecutor(max_workers=jobs) as ex:
            futs = [ex.submit(run_one, crate_dir, target_dir, h, h.get('timeout', timeout)) for h in harnesses]
            for f in futs:
                results.append(f.result())
    return dict(cmd='cd %s && CARGO_NET_OFFLINE=true cargo kani --harness <each of %d harnesses> --exact' % (crate_dir, len(harnesses)),
                results=results, cbmc_s=round(sum(r.get('cbmc_s', 0) for r in results), 1),
                summary=dict(harnesses=len(results), ok=sum(1 for r in results if r['status'] == 'ok'),
                             build_s=round(time.time() - t0, 1),
                             per_harness=[dict(name=r['name'], status=r['status'], checks=r['checks'], wall_s=r['wall_s'],
                                               bounded=r.get('bounded')) for r in results]))


def native_replay(root, repo, pb):
    """run Kani's counterexample natively against the real crates: the generated concrete-playback unit test (the harness
    body fed with the recorded kani::any() values) is appended to the harness module of a private copy of the harness crate
    and executed with `cargo kani playback` (ordinary rustc build, no model checker involved)."""
    if not pb or not pb.get('test'):
        return None
    work = os.path.join(root, '.work', 'replay-kani')
    crate = os.path.join(work, 'kani-crate')
    prepare_crate(root, repo, crate)
    mod = pb['harness'].split('::')[0]
    mfile = os.path.join(crate, 'src', mod + '.rs')
    m = re.search(r'fn (kani_concrete_playback_\w+)', pb['test'])
    if not os.path.exists(mfile) or not m:
        return dict(error='cannot place the playback test', harness=pb.get('harness'))
    open(mfile, 'a').write('\n' + pb['test'] + '\n')
    env = dict(os.environ, CARGO_NET_OFFLINE='true', CARGO_TARGET_DIR=os.path.join(work, 'target'), RUST_BACKTRACE='0')
    cmd = ['cargo', 'kani', 'playback', '-Z', 'concrete-playback', '--', m.group(1)]
    try:
        p = subprocess.run(cmd, cwd=crate, capture_output=True, text=True, timeout=900, env=env)
        out = p.stdout + '\n' + p.stderr
    except subprocess.TimeoutExpired:
        return dict(error='native playback timed out', harness=pb.get('harness'))
    pm = re.search(r"panicked at ([^\n]*):\n([^\n]*)", out)
    res = dict(harness=pb.get('harness'), values=pb.get('values'), cmd='cd %s && %s' % (crate, ' '.join(cmd)),
               generated_test=pb['test'])
    if 'test result: FAILED' in out or pm:
        res.update(native_result='the real code fails on this input', panic_location=pm.group(1) if pm else None,
                   panic_message=pm.group(2) if pm else None)
    elif 'test result: ok' in out:
        res.update(native_result='the native run passed (the counterexample depends on something only the model checker sees, e.g. an out-of-bounds read that does not trap natively)')
    else:
        res.update(native_result='native playback could not be built/run', tail=out[-1500:])
    return res
