#!/bin/bash
# development aid: apply every semantics-preserving patch of selftest/harmless/ to a scratch worktree and run all Verus units on it
# through the driver (`./run labels`: same lost-anchor / tool-error / loop-shape guards as `./run check`).
# A FAIL line here is a FALSE ALARM of the machinery; DEGRADED lines are allowed (undecided, never an alarm).
WT=/tmp/harmless_wt
git -C /repo worktree remove --force $WT >/dev/null 2>&1
git -C /repo worktree add -q --detach $WT HEAD || exit 9
bad=0
for p in /verif/selftest/harmless/*.diff; do
  cd $WT && git checkout -q -- . && git apply "$p" 2>/dev/null || { echo "$(basename $p): does not apply to HEAD (skipped)"; continue; }
  out=$(cd /verif && VERIF_REPO=$WT VERIF_WORK=/verif/.work/harmless ./run labels 2>&1 | grep -E "^(FAIL|DEGRADED|INCONCLUSIVE)")
  echo "$out" | grep -E "^DEGRADED" | sed "s/^/$(basename $p): /" | cut -c1-200
  if echo "$out" | grep -qE "^FAIL"; then echo "$out" | grep -E "^FAIL" | sed "s/^/$(basename $p): FALSE ALARM /" | cut -c1-240; bad=1; fi
done
git -C /repo worktree remove --force $WT
rm -rf /verif/.work/harmless
echo "harmless check done, false alarms: $bad"
exit $bad
