#!/bin/bash
# development aid: apply every semantics-preserving patch of selftest/harmless/ to a scratch worktree and run the Verus units on it.
# A "failed" verification here is a FALSE ALARM of the machinery (lost anchors / tool errors only degrade a check, never alarm).
WT=/tmp/harmless_wt
git -C /repo worktree remove --force $WT >/dev/null 2>&1
git -C /repo worktree add -q --detach $WT HEAD || exit 9
bad=0
for p in /verif/selftest/harmless/*.diff; do
  cd $WT && git checkout -q -- . && git apply "$p" 2>/dev/null || { echo "$(basename $p): does not apply to HEAD (skipped)"; continue; }
  for u in walk flex flexmut vec io_blocking io_async portable_ops; do
    all=$(cd /verif && python3 tools/unit.py $u --repo $WT 2>&1)
    echo "$all" | grep -E "^LOST LABEL" | sed "s/^/$(basename $p) [$u] one label degraded: /" | cut -c1-170
    out=$(echo "$all" | grep -E "^(verified=|ERR|LOST ANCHOR|TOOL)" | head -2)
    case "$out" in
      verified=*" failed=0 "*) ;;
      LOST*|*TOOL*) echo "$(basename $p) [$u] degraded: $(echo "$out" | head -1 | cut -c1-120)";;
      *) echo "$(basename $p) [$u] FALSE ALARM: $(echo "$out" | tail -1 | cut -c1-160)"; bad=1;;
    esac
  done
done
git -C /repo worktree remove --force $WT
exit $bad
