#!/bin/bash
# usage: seed_confirm.sh <worktree> <seed-out-dir> <demo-dest-rel> <crate> <save-id> <property>
# confirms in the scratch worktree: (c) demo passes on clean tree, (b) demo fails with patch, (a) suite passes with patch;
# then saves into /verif/seeded/<save-id>/
WT="$1"; OUT="$2"; DEST="$3"; CRATE="$4"; ID="$5"; PROP="$6"
cd "$WT" || exit 9
git checkout -q -- . ; mkdir -p "$(dirname "$DEST")"; cp "$OUT/demo.rs" "$DEST"
cargo test --offline -q -p "$CRATE" --test demo >/tmp/sc_$ID.c.log 2>&1; C=$?
git apply "$OUT/patch.diff" || { echo "$ID: patch does not apply"; exit 9; }
cargo test --offline -q -p "$CRATE" --test demo >/tmp/sc_$ID.b.log 2>&1; B=$?
rm -f "$DEST"; rmdir "$(dirname "$DEST")" 2>/dev/null
cargo test --workspace --offline -q >/tmp/sc_$ID.a.log 2>&1; A=$?
git checkout -q -- .
echo "$ID: clean-demo rc=$C (want 0)  patched-demo rc=$B (want !=0)  patched-suite rc=$A (want 0)"
if [ $C -eq 0 ] && [ $B -ne 0 ] && [ $A -eq 0 ]; then
  mkdir -p /verif/seeded/$ID && cp "$OUT/patch.diff" "$OUT/demo.rs" /verif/seeded/$ID/
  python3 - "$OUT/meta.json" /verif/seeded/$ID/meta.json "$PROP" "$DEST" "$CRATE" <<'PY'
import json, sys
m = json.load(open(sys.argv[1]))
m['property'] = sys.argv[3]
m['confirmed_by'] = {'clean_demo': 'pass', 'patched_demo': 'fail', 'patched_suite': 'pass (cargo test --workspace --offline)',
                     'demo_installed_as': sys.argv[4], 'demo_cmd': 'cargo test --offline -p %s --test demo' % sys.argv[5]}
json.dump(m, open(sys.argv[2], 'w'), indent=1)
PY
  echo "$ID: saved"
fi
