#!/bin/bash
# usage: seed_regress.sh <ID> <prop> [more props]  -- re-check a saved seeded change (/verif/seeded/<ID>/patch.diff) in a fresh scratch
# worktree of /repo HEAD (removed afterwards); evidence and scratch are redirected, /repo itself is never touched
ID="$1"; shift
WT=/tmp/seedreg_$ID
git -C /repo worktree remove --force $WT >/dev/null 2>&1
git -C /repo worktree add -q --detach $WT HEAD || exit 9
cd $WT && git apply /verif/seeded/$ID/patch.diff 2>/dev/null || { echo "== $ID patch no longer applies to HEAD"; git -C /repo worktree remove --force $WT; exit 8; }
W=/verif/.work/seedreg-$ID; mkdir -p $W/evidence
for P in "$@"; do
  cd /verif && VERIF_REPO="$WT" VERIF_WORK=$W VERIF_EVID=$W/evidence ./run check "$P" --tier quick > $W/$P.out 2>&1
  echo "== $ID check $P rc=$?"; grep -E "^(VIOLATION|KNOWN|DEGRADED|INCONCLUSIVE|property=)" $W/$P.out | cut -c1-200 | head -6
done
git -C /repo worktree remove --force $WT
rm -rf $W/kani-target $W/kani-crate
