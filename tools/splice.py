"""template + text cut out of /repo  ->  generated single-file Verus unit (+ line map).

Directives (each on its own line, leading whitespace ignored):

  //@FN label=<name> props=C01,C05           start of a labelled region (ends at next //@FN or //@ENDFN)
  //@ENDFN
  //@BODY file=<repo rel path> fn=<name> [ctx=<regex on enclosing header>] [index=N] [sig=<expected signature>]
        replaced by the repository's function body `{ ... }`, verbatim.  May be followed by modifiers:
  //@LOOP <n>                                 clauses for the n-th loop (1-based, source order) of that body;
  //@  invariant ... / decreases ...          the `//@  ` lines (prefix stripped) are inserted between the loop
  //@END                                      header and its `{`
  //@SUB "<from>" -> "<to>"                   literal rewrite inside the body (must match; listed in evidence)
  //@RESUB "<regex>" -> "<to>"                regular-expression rewrite (must match at least once; RESUBOPT: may be absent --
                                              used for glue whose un-rewritten form cannot type-check in the unit, so absence degrades)
  //@FORBID "<regex>"                         after all rewrites the body must NOT match (a construct that would be hosted without
                                              the annotation it needs, e.g. a closure in a new shape): lost anchor, never an alarm
  //@SUBOPT "<from>" -> "<to>"                same, but skipped when <from> does not occur (used for `X::CONST` -> `X::CONST()`)
  //@START ... //@END                          insert the `//@  ` lines right after the opening brace of the body
  //@AT "<text>" before|after [n]             insert the following `//@  ` lines before/after the first (n-th) body line
  //@END                                      containing <text>
  /*@EXPR file=.. const=NAME [ctx=..]@*/      inline: initialiser expression of a `const` item, verbatim
  /*@ARM file=.. macro=NAME arm=N@*/          inline: body of a macro_rules arm, verbatim
"""
import json
import os
import re
import shlex

from rsextract import LostAnchor, find_const, find_fn, find_loops, find_macro_arm, mask, norm


def _args(s):
    d = {}
    for tok in shlex.split(s):
        if '=' in tok:
            k, v = tok.split('=', 1)
            d[k] = v
        else:
            d.setdefault('_', []).append(tok)
    return d


def strip_lifetimes(s):
    return re.sub(r"<'[a-z_]+>", '', re.sub(r"'[a-z_]+\s*", '', s))


class Spliced:
    def __init__(self):
        self.lines = []        # generated lines
        self.origin = []       # per generated line: ('tmpl', lineno) | ('repo', file, lineno)
        self.regions = []      # dict(label, props, start, end)   (1-based generated lines)
        self.rewrites = []     # human readable list of rewrites applied
        self.anchors = []      # dict(file, fn, line)
        self.repo_lines = 0
        self.body_starts = []  # (generated line number of the line holding a hosted body's opening brace, label)
        self.shapes = {}       # label -> loop keywords of the hosted repo body that carries loop clauses (invariants)
        self.lost = []         # dict(label, reason): labelled regions whose hosted text could not be produced (stubbed, undecided)

    def emit(self, text, origin):
        for k, ln in enumerate(text.split('\n')):
            self.lines.append(ln)
            if origin[0] == 'repo':
                self.origin.append(('repo', origin[1], origin[2] + k))
            else:
                self.origin.append(origin)


def splice(tmpl_path, repo_root, stub_labels=None):
    stub_labels = stub_labels or {}
    def load(path, depth=0):
        res = []
        for ln in open(path).read().split('\n'):
            if ln.strip().startswith('//@INCLUDE '):
                inc = os.path.join(os.path.dirname(tmpl_path), ln.strip().split(None, 1)[1])
                res.extend(load(inc, depth + 1))
            else:
                res.append(ln)
        return res
    src = load(tmpl_path)
    out = Spliced()
    cache = {}

    def repo_text(rel):
        if rel not in cache and rel.startswith('EXPAND:'):
            # text that only exists after macro expansion: run the repository's real proc-macro on the corpus
            import expand
            try:
                cache[rel] = expand.expand(os.path.dirname(os.path.dirname(os.path.abspath(tmpl_path))), repo_root)
            except Exception as e:
                raise LostAnchor('macro expansion failed: %s' % str(e)[-600:])
        if rel not in cache:
            p = os.path.join(repo_root, rel)
            if not os.path.exists(p):
                raise LostAnchor('file %s missing' % rel)
            cache[rel] = open(p).read()
        return cache[rel]

    def inline(line, lineno):
        def rep_expr(mm):
            a = _args(mm.group(1))
            c = find_const(repo_text(a['file']), a['const'], a.get('ctx'), int(a.get('index', 0)))
            out.anchors.append(dict(file=a['file'], item='const ' + a['const'], line=c['line']))
            out.rewrites.append('R2 const %s (%s:%d) hosted as fn body: %s' % (a['const'], a['file'], c['line'], norm(c['expr'])))
            expr = c['expr'].replace('\n', ' ')
            # fnify=A,B: other hosted constants referenced by this initialiser become calls (`Self::A` -> `Self::A()`)
            for nm in [x for x in a.get('fnify', '').split(',') if x]:
                src_nm, _, dst_nm = nm.partition(':')
                expr = re.sub(r'::%s\b(?!\()' % re.escape(src_nm), '::%s()' % (dst_nm or src_nm), expr)
            return '/*%s:%d*/ %s' % (a['file'], c['line'], expr)
        def rep_arm(mm):
            a = _args(mm.group(1))
            c = find_macro_arm(repo_text(a['file']), a['macro'], int(a['arm']))
            out.anchors.append(dict(file=a['file'], item='macro %s arm %s' % (a['macro'], a['arm']), line=c['line']))
            return '/*%s:%d*/ %s' % (a['file'], c['line'], c['body'].replace('\n', ' '))
        line = re.sub(r'/\*@EXPR (.*?)@\*/', rep_expr, line)
        line = re.sub(r'/\*@ARM (.*?)@\*/', rep_arm, line)
        return line

    i = 0
    cur = None
    while i < len(src):
        raw = src[i]
        s = raw.strip()
        if s.startswith('//@FN '):
            if cur:
                cur['end'] = len(out.lines)
            a = _args(s[6:])
            cur = dict(label=a['label'], props=a.get('props', '').split(',') if a.get('props') else [],
                       start=len(out.lines) + 1, end=None, kind=a.get('kind', 'fn'))
            out.regions.append(cur)
            out.emit('// ---- ' + s[3:], ('tmpl', i + 1))
            i += 1
        elif s.startswith('//@ENDFN'):
            if cur:
                cur['end'] = len(out.lines)
                cur = None
            i += 1
        elif s.startswith('//@BODY '):
            a = _args(s[8:])
            tmpl_line = i + 1
            i += 1
            loops, subs, ats, forbids = {}, [], [], []
            while i < len(src):
                t = src[i].strip()
                if t.startswith('//@LOOP '):
                    n = int(t.split()[1])
                    i += 1
                    buf = []
                    while not src[i].strip().startswith('//@END'):
                        buf.append(re.sub(r'^\s*//@ ?', '', src[i]))
                        i += 1
                    i += 1
                    loops[n] = buf
                elif t.startswith('//@RESUB ') or t.startswith('//@RESUBOPT '):
                    mm = re.match(r'//@RESUB(?:OPT)?\s+"(.*)"\s*->\s*"(.*)"\s*$', t)
                    subs.append((re.compile(mm.group(1)), mm.group(2), t.startswith('//@RESUBOPT ')))
                    i += 1
                elif t.startswith('//@SUB ') or t.startswith('//@SUBOPT '):
                    mm = re.match(r'//@SUB(?:OPT)?\s+"(.*)"\s*->\s*"(.*)"\s*$', t)
                    subs.append((mm.group(1), mm.group(2), t.startswith('//@SUBOPT ')))
                    i += 1
                elif t.startswith('//@FORBID '):
                    mm = re.match(r'//@FORBID\s+"(.*)"\s*$', t)
                    forbids.append(re.compile(mm.group(1)))
                    i += 1
                elif t.startswith('//@AT '):
                    mm = re.match(r'//@AT\s+"(.*)"\s+(before|after)(?:\s+(\d+))?\s*$', t)
                    i += 1
                    buf = []
                    while not src[i].strip().startswith('//@END'):
                        buf.append(re.sub(r'^\s*//@ ?', '', src[i]))
                        i += 1
                    i += 1
                    ats.append((mm.group(1), mm.group(2) + (':' + mm.group(3) if mm.group(3) else ''), buf))
                elif t.startswith('//@START'):
                    i += 1
                    buf = []
                    while not src[i].strip().startswith('//@END'):
                        buf.append(re.sub(r'^\s*//@ ?', '', src[i]))
                        i += 1
                    i += 1
                    ats.append((None, 'start', buf))
                else:
                    break
            def host_body():
                if cur and cur['label'] in stub_labels:
                    raise LostAnchor(stub_labels[cur['label']])
                if 'const' in a:
                    # a const initialiser hosted as a function body (R2), so that the rewrite directives apply to it
                    c = find_const(repo_text(a['file']), a['const'], a.get('ctx'), int(a.get('index', 0)))
                    f = dict(body='{\n' + c['expr'] + '\n}', line=c['line'] - 1, sig_line=c['line'], sig='const ' + a['const'])
                    a['fn'] = 'const ' + a['const']
                    out.rewrites.append('R2 const %s (%s:%d) hosted as fn body' % (a['const'], a['file'], c['line']))
                else:
                    f = find_fn(repo_text(a['file']), a['fn'], a.get('ctx'), int(a.get('index', 0)))
                if 'sig' in a:
                    if norm(strip_lifetimes(a['sig'])) != norm(strip_lifetimes(f['sig'])):
                        raise LostAnchor('signature of %s in %s changed: expected `%s`, found `%s`' % (a['fn'], a['file'], a['sig'], norm(f['sig'])))
                body = f['body']
                out.anchors.append(dict(file=a['file'], item=('fn ' + a['fn']) if 'const' not in a else a['fn'], line=f['sig_line'], sig=norm(f['sig'])))
                # loop clauses (insert from the last loop backwards so positions stay valid)
                if loops:
                    found = find_loops(body)
                    if cur:
                        out.shapes[cur['label']] = out.shapes.get(cur['label'], []) + [kw for _, _, kw in found]
                    for n in sorted(loops, reverse=True):
                        if n > len(found):
                            raise LostAnchor('loop %d of %s not found (body has %d loops)' % (n, a['fn'], len(found)))
                        _, bpos, _ = found[n - 1]
                        clause = '\n' + '\n'.join('/*@c*/ ' + c for c in loops[n]) + '\n'
                        body = body[:bpos] + clause + body[bpos:]
                for frm, to, optional in subs:
                    if hasattr(frm, 'pattern'):
                        body, nsub = frm.subn(to, body)
                        if nsub == 0 and optional:
                            continue
                        if nsub == 0:
                            raise LostAnchor('rewrite pattern `%s` not found in %s' % (frm.pattern, a['fn']))
                        out.rewrites.append('%s:%s /%s/ -> `%s` (%d places)' % (a['file'], a['fn'], frm.pattern, to, nsub))
                        continue
                    if frm not in body and optional:
                        continue  # a constant-to-function rewrite (R2) with nothing to rewrite
                    if frm not in body:
                        raise LostAnchor('rewrite source `%s` not found in %s' % (frm, a['fn']))
                    body = body.replace(frm, to)
                    out.rewrites.append('%s:%s `%s` -> `%s`' % (a['file'], a['fn'], frm, to))
                for fb in forbids:
                    if fb.search(body):
                        raise LostAnchor('construct `%s` that the unit cannot host is still present in %s after the rewrites' % (fb.pattern, a['fn']))
                blines = body.split('\n')
                # map body lines to repo lines; inserted clause lines (marked) map to the template
                repo_ln = f['line']
                marks = []
                for bl in blines:
                    if bl.startswith('/*@c*/ '):
                        marks.append(None)
                    else:
                        marks.append(repo_ln)
                        repo_ln += 1
                # the line before an inserted clause got split; fix numbering: a clause block splits one repo line in two
                # (header part, `{` part) -- both belong to the same repo line.
                fixed = []
                repo_ln = f['line']
                k = 0
                while k < len(blines):
                    if blines[k].startswith('/*@c*/ '):
                        fixed.append(('tmpl', tmpl_line))
                        k += 1
                        if k < len(blines) and not blines[k].startswith('/*@c*/ '):
                            # continuation of the split line
                            fixed.append(('repo', a['file'], repo_ln - 1))
                            k += 1
                        continue
                    fixed.append(('repo', a['file'], repo_ln))
                    repo_ln += 1
                    k += 1
                blines = [b[7:] if b.startswith('/*@c*/ ') else b for b in blines]
                # AT insertions
                for pat, where, buf in ats:
                    if where == 'start':
                        # right after the opening brace of the body (line 0 holds `{`)
                        first = blines[0]
                        bpos = first.index('{') + 1
                        rest = first[bpos:]
                        blines[0] = first[:bpos]
                        ins = list(buf) + ([rest] if rest.strip() else [])
                        blines[1:1] = ins
                        fixed[1:1] = [('tmpl', tmpl_line)] * len(buf) + ([fixed[0]] if rest.strip() else [])
                        continue
                    idx = None
                    nth = 1
                    if ':' in where:
                        where, nth_s = where.split(':')
                        nth = int(nth_s)
                    for k, bl in enumerate(blines):
                        if fixed[k][0] == 'repo' and norm(pat) in norm(bl):
                            nth -= 1
                            if nth == 0:
                                idx = k
                                break
                    if idx is None:
                        raise LostAnchor('hint anchor `%s` not found in %s' % (pat, a['fn']))
                    at = idx if where == 'before' else idx + 1
                    blines[at:at] = buf
                    fixed[at:at] = [('tmpl', tmpl_line)] * len(buf)
                out.body_starts.append((len(out.lines) + 1, cur['label'] if cur else a['fn']))
                for bl, org in zip(blines, fixed):
                    out.lines.append(bl)
                    out.origin.append(org)
                    if org[0] == 'repo':
                        out.repo_lines += 1
            try:
                host_body()
            except LostAnchor as e:
                if not cur:
                    raise
                # the hosted text of this labelled function cannot be produced: stub its body (the contract stays, so callers
                # are still checked against it) and report the label as undecided -- never as a violation
                out.lost.append(dict(label=cur['label'], reason=str(e)))
                out.emit('    { /*lost-anchor stub*/ proof { assume(false); } vstd::pervasive::unreached() }', ('tmpl', tmpl_line))
        else:
            try:
                out.emit(inline(raw, i + 1), ('tmpl', i + 1))
            except LostAnchor as e:
                if not cur:
                    raise
                out.lost.append(dict(label=cur['label'], reason=str(e)))
                out.emit(re.sub(r'/\*@(EXPR|ARM) .*?@\*/', '/*lost-anchor stub*/ proof { assume(false); } vstd::pervasive::unreached()', raw), ('tmpl', i + 1))
            i += 1
    if cur:
        cur['end'] = len(out.lines)
    return out


def write_unit(sp, out_rs):
    with open(out_rs, 'w') as f:
        f.write('\n'.join(sp.lines) + '\n')
    with open(out_rs + '.map.json', 'w') as f:
        json.dump(dict(origin=sp.origin, regions=sp.regions, rewrites=sp.rewrites, anchors=sp.anchors,
                       repo_lines=sp.repo_lines, lost=sp.lost, shapes=sp.shapes), f)
