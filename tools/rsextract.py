"""Rust-aware cutting of items out of /repo source text.

Nothing here understands Rust semantics: it masks comments / strings / char literals so that
brace matching and keyword search work on the remaining text, then cuts *verbatim* slices of the
original text.  Used by splice.py to put the repository's real function bodies into Verus units.
"""
import re


class LostAnchor(Exception):
    """the item named by a template could not be found (or its signature changed)"""


def mask(text):
    """Return text of identical length where comments, string and char literals are blanked
    (newlines kept), so that braces/keywords inside them are invisible."""
    out = list(text)
    i, n = 0, len(text)

    def blank(a, b):
        for k in range(a, b):
            if out[k] != '\n':
                out[k] = ' '

    while i < n:
        c = text[i]
        if c == '/' and i + 1 < n and text[i + 1] == '/':
            j = text.find('\n', i)
            j = n if j < 0 else j
            blank(i, j)
            i = j
        elif c == '/' and i + 1 < n and text[i + 1] == '*':
            depth, j = 1, i + 2
            while j < n and depth:
                if text.startswith('/*', j):
                    depth += 1
                    j += 2
                elif text.startswith('*/', j):
                    depth -= 1
                    j += 2
                else:
                    j += 1
            blank(i, j)
            i = j
        elif c == '"':
            j = i + 1
            while j < n and text[j] != '"':
                j += 2 if text[j] == '\\' else 1
            blank(i + 1, min(j, n))
            i = j + 1
        elif c == 'r' and re.match(r'r#*"', text[i:i + 8]) and (i == 0 or not (text[i - 1].isalnum() or text[i - 1] == '_')):
            m = re.match(r'r(#*)"', text[i:])
            end = '"' + m.group(1)
            j = text.find(end, i + len(m.group(0)))
            j = n if j < 0 else j
            blank(i + len(m.group(0)), j)
            i = j + len(end)
        elif c == "'":
            # char literal or lifetime
            m = re.match(r"'(\\.[^']*|[^\\'])'", text[i:])
            if m:
                blank(i + 1, i + len(m.group(0)) - 1)
                i += len(m.group(0))
            else:
                i += 1
        else:
            i += 1
    return ''.join(out)


def match_brace(m, open_pos, open_ch='{', close_ch='}'):
    depth = 0
    for k in range(open_pos, len(m)):
        ch = m[k]
        if ch == open_ch:
            depth += 1
        elif ch == close_ch:
            depth -= 1
            if depth == 0:
                return k
    raise LostAnchor('unbalanced braces')


def norm(s):
    """whitespace-insensitive normal form used to compare signatures / headers"""
    s = re.sub(r'\s+', ' ', s).strip()
    s = re.sub(r'\s*([(){}\[\]<>,:;&*=+\-|!?])\s*', r'\1', s)
    return s


def line_of(text, pos):
    return text.count('\n', 0, pos) + 1


def _blocks(text, m):
    """yield (header_text, open_pos, close_pos, parent_index) for every `{}` block"""
    blocks = []
    stack = []
    last_boundary = [0]
    pdepth = 0
    i, n = 0, len(m)
    while i < n:
        ch = m[i]
        if ch == '{':
            start = last_boundary[-1]
            header = text[start:i]
            blocks.append([header, i, None, stack[-1] if stack else None, start])
            stack.append(len(blocks) - 1)
            last_boundary.append(i + 1)
        elif ch == '}':
            if stack:
                b = stack.pop()
                blocks[b][2] = i
                last_boundary.pop()
                last_boundary[-1] = i + 1
        elif ch in '([':
            pdepth += 1
        elif ch in ')]':
            pdepth = max(0, pdepth - 1)
        elif ch == ';' and pdepth == 0:
            # a `;` inside `[T; N]` or a parenthesised expression does not end an item
            last_boundary[-1] = i + 1
        i += 1
    return blocks


FN_RE = r'\bfn\s+%s\b'


def find_fn(text, name, ctx=None, index=0):
    """Locate `fn name` whose *enclosing* block header matches regex `ctx` (applied to the
    normalised header; None = any).  Returns dict(sig, body, line, start, end)."""
    m = mask(text)
    blocks = _blocks(text, m)
    hits = []
    for bi, (header, op, cl, parent, hstart) in enumerate(blocks):
        hm = m[hstart:op]
        mm = None
        for mm_ in re.finditer(FN_RE % re.escape(name), hm):
            mm = mm_
        if not mm or cl is None:
            continue
        # `fn name` must be the item this block belongs to: no `{`/`;` between (guaranteed by header cut)
        # but a closure/where clause could contain another fn token: take the last match only.
        if ctx is not None:
            if parent is None:
                continue
            pheader = norm(blocks[parent][0])
            pheader = re.sub(r'^(#\[[^\]]*\])+', '', pheader)
            if not re.search(ctx, pheader):
                continue
        # signature starts at first qualifier before `fn`
        sig_start = hstart
        seg = m[hstart:op]
        # strip attributes and doc comments preceding: find the start of the line containing qualifiers
        q = re.search(r'((pub(\([^)]*\))?\s+)?((default|const|async|unsafe|extern\s*"[^"]*")\s+)*fn\s+%s\b)' % re.escape(name), seg)
        if q:
            sig_start = hstart + q.start()
        hits.append(dict(sig=text[sig_start:op].strip(), body=text[op:cl + 1], line=line_of(text, op),
                         sig_line=line_of(text, sig_start), start=op, end=cl + 1,
                         ctx=norm(blocks[parent][0]) if parent is not None else ''))
    if len(hits) <= index:
        raise LostAnchor('fn %s (ctx=%r, index=%d) not found' % (name, ctx, index))
    return hits[index]


def find_const(text, name, ctx=None, index=0):
    """`const NAME: T = EXPR;` inside a block whose header matches ctx. Returns dict(ty, expr, line)."""
    m = mask(text)
    blocks = _blocks(text, m)
    hits = []
    for mm in re.finditer(r'\bconst\s+%s\s*:' % re.escape(name), m):
        pos = mm.start()
        # enclosing block = innermost block containing pos
        enc = None
        for bi, (header, op, cl, parent, hstart) in enumerate(blocks):
            if cl is not None and op < pos < cl:
                if enc is None or op > blocks[enc][1]:
                    enc = bi
        if ctx is not None:
            if enc is None or not re.search(ctx, norm(blocks[enc][0])):
                continue
        # find '=' at depth 0 then ';' at depth 0
        k = mm.end()
        depth = 0
        eq = None
        while k < len(m):
            ch = m[k]
            if ch in '([{<' and ch != '<':
                depth += 1
            elif ch in ')]}' :
                depth -= 1
            elif ch == '=' and depth == 0 and eq is None and m[k + 1] != '=':
                eq = k
            elif ch == ';' and depth == 0:
                break
            k += 1
        if eq is None:
            continue
        hits.append(dict(ty=text[mm.end():eq].strip(), expr=text[eq + 1:k].strip(), line=line_of(text, pos)))
    if len(hits) <= index:
        raise LostAnchor('const %s (ctx=%r) not found' % (name, ctx))
    return hits[index]


def find_macro_arm(text, macro, index):
    """arm `index` of `macro_rules! macro { (pat) => { body }; ... }` -> dict(pat, body, line)"""
    m = mask(text)
    mm = re.search(r'macro_rules!\s*%s\s*\{' % re.escape(macro), m)
    if not mm:
        raise LostAnchor('macro_rules! %s not found' % macro)
    op = mm.end() - 1
    cl = match_brace(m, op)
    arms = []
    k = op + 1
    while k < cl:
        if m[k] == '(':
            pe = match_brace(m, k, '(', ')')
            arrow = m.find('=>', pe)
            bo = m.find('{', arrow)
            be = match_brace(m, bo)
            arms.append(dict(pat=text[k:pe + 1], body=text[bo + 1:be], line=line_of(text, k)))
            k = be + 1
        else:
            k += 1
    if len(arms) <= index:
        raise LostAnchor('macro %s arm %d not found' % (macro, index))
    return arms[index]


def find_loops(body):
    """positions of loop headers in a body: list of (kw_pos, open_brace_pos, kw) in source order"""
    m = mask(body)
    res = []
    for mm in re.finditer(r'\b(while|loop|for)\b', m):
        kw = mm.group(1)
        if kw == 'for':
            # `for<'a>` HRTB or `impl X for Y` are not loops; a loop `for` is followed by a pattern and ` in `
            rest = m[mm.end():mm.end() + 200]
            if not re.match(r'\s+[^;{}]*?\bin\b', rest):
                continue
        k = mm.end()
        depth = 0
        while k < len(m):
            ch = m[k]
            if ch in '([':
                depth += 1
            elif ch in ')]':
                depth -= 1
            elif ch == '{' and depth == 0:
                break
            k += 1
        res.append((mm.start(), k, kw))
    return res
