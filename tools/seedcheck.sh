#!/bin/sh
# usage: tools/seedcheck.sh <patch.diff> <prop> [tier]   -- apply a seeded change to /repo, run the check, undo
set -u
PATCH="$1"; PROP="$2"; TIER="${3:-quick}"
cd /repo || exit 9
git diff --quiet || { echo "/repo not clean"; exit 9; }
git apply "$PATCH" || { echo "patch does not apply"; exit 9; }
cd /verif && ./run check "$PROP" --tier "$TIER" > /tmp/seedcheck.out 2>&1
RC=$?
git -C /repo checkout -- .
echo "rc=$RC"; grep -E "^(VIOLATION|KNOWN|DEGRADED|INCONCLUSIVE|property=)" /tmp/seedcheck.out | cut -c1-260 | head -12
