#!/usr/bin/env python3
"""development aid: generate simple syntactic mutants of the hosted library files in a scratch worktree, keep those that still
compile and pass the repository's test suite ("equivalent to the tests"), and run the Verus units on each survivor.
A survivor on which every unit still verifies is a candidate MISS of the deductive layer (the Kani layer is not run here).
usage: tools/mutate.py <worktree> <out.json> [file ...]"""
import json, os, re, subprocess, sys
ROOT = os.path.dirname(os.path.dirname(os.path.abspath(__file__)))
FILES = ['base/src/utils/mod.rs', 'base/src/utils/mem.rs', 'base/src/utils/iter.rs', 'base/src/traits.rs', 'base/src/emplacer.rs',
         'base/src/primitive.rs', 'containers/src/vec.rs', 'containers/src/string.rs', 'containers/src/flex.rs',
         'io/src/common/io.rs', 'io/src/blocking/io.rs', 'io/src/blocking/recv.rs', 'io/src/blocking/send.rs', 'io/src/async_/io.rs']
OPS = [(r' < ', ' <= '), (r' <= ', ' < '), (r' > ', ' >= '), (r' >= ', ' > '), (r' == ', ' != '), (r' != ', ' == '),
       (r' \+ ', ' - '), (r' - ', ' + '), (r'ceil_mul\(', 'floor_mul('), (r'floor_mul\(', 'ceil_mul('), (r'\bmax\(', 'min('),
       (r' \+= ', ' -= '), (r'!last', 'last'), (r'pos \+ ', 'pos - '), (r'::SIZE\b', '::ALIGN'), (r'::ALIGN\b', '::SIZE'),
       (r'\.offset\(([^()]*)\)', '.offset(0)'), (r'InsufficientSize', 'InvalidData'), (r' \* ', ' + ')]


def sh(cmd, cwd, timeout=600):
    try:
        p = subprocess.run(cmd, cwd=cwd, shell=True, capture_output=True, text=True, timeout=timeout)
        return p.returncode, p.stdout + p.stderr
    except subprocess.TimeoutExpired:
        return 124, 'timeout'


def main():
    wt, outp = sys.argv[1], sys.argv[2]
    files = sys.argv[3:] or FILES
    res = []
    for f in files:
        path = os.path.join(wt, f)
        src = open(path).read()
        # do not touch test modules
        cut = src.find('#[cfg(all(test')
        cut2 = src.find('#[cfg(test)]')
        limit = min([c for c in (cut, cut2) if c >= 0] or [len(src)])
        for pat, rep in OPS:
            for m in re.finditer(pat, src[:limit]):
                line = src.count('\n', 0, m.start()) + 1
                ltxt = src.split('\n')[line - 1]
                if ltxt.strip().startswith('//') or 'assert' in ltxt and 'debug' in ltxt:
                    continue
                mutated = src[:m.start()] + re.sub(pat, rep, m.group(0), count=1) + src[m.end():]
                open(path, 'w').write(mutated)
                rc, out = sh('cargo test --workspace --offline -q 2>&1 | tail -5', wt, 900)
                ok = rc == 0 and 'FAILED' not in out and 'error' not in out.lower().split('warning')[0][:2000] and 'test result: ok' in out
                entry = dict(file=f, line=line, op='%s -> %s' % (pat, rep), text=ltxt.strip()[:120], survives_tests=bool(ok))
                if ok:
                    units = {}
                    for u in ['walk', 'flex', 'vec', 'io_blocking', 'io_async']:
                        rc2, o2 = sh('python3 tools/unit.py %s --repo %s 2>&1 | head -3' % (u, wt), ROOT, 600)
                        first = [l for l in o2.split('\n') if l.startswith('verified=') or l.startswith('LOST') or 'TOOL' in l][:2]
                        st = 'ok'
                        if any(l.startswith('LOST') for l in first) or any('TOOL' in l for l in first):
                            st = 'degraded'
                        elif first and ' failed=0 ' not in first[0]:
                            st = 'CAUGHT'
                        units[u] = st
                    entry['units'] = units
                    entry['caught_by_verus'] = any(v == 'CAUGHT' for v in units.values())
                    print('%s:%d %-28s tests-pass  verus=%s  | %s' % (f, line, entry['op'], 'CAUGHT' if entry['caught_by_verus'] else ('degraded' if 'degraded' in units.values() else 'MISS'), entry['text'][:70]), flush=True)
                res.append(entry)
                json.dump(res, open(outp, 'w'), indent=1)
        open(path, 'w').write(src)
    surv = [e for e in res if e['survives_tests']]
    print('mutants %d, survive the test suite %d, caught by Verus %d' % (len(res), len(surv), sum(1 for e in surv if e.get('caught_by_verus'))))


if __name__ == '__main__':
    main()
