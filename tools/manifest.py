#!/usr/bin/env python3
"""(re)generate MANIFEST.json from contracts/registry.json + contracts/manifest_text.json"""
import json
import os
ROOT = os.path.dirname(os.path.dirname(os.path.abspath(__file__)))
reg = json.load(open(os.path.join(ROOT, 'contracts', 'registry.json')))
txt = json.load(open(os.path.join(ROOT, 'contracts', 'manifest_text.json')))
props = [json.loads(l)['id'] for l in open(os.path.join(ROOT, 'properties.jsonl')) if l.strip()]
checks = []
for p in props:
    if p not in reg['properties'] or p in txt.get('not_applicable', {}):
        continue
    t = txt['checks'][p]
    checks.append(dict(property_id=p, quick_cmd='./run check %s --tier quick' % p, thorough_cmd='./run check %s --tier thorough' % p,
                       evidence_file='/verif/evidence/%s.json' % p, replay_cmd_template='./run replay {path}',
                       engine=t['engine'], level_claimed=dict(category=reg['properties'][p].get('level', 'proof'), text=t['level_text'],
                                                              design_ref=t.get('design_ref', 'DESIGN.md §4 ' + p)),
                       level_note=t['level_note'], technique=t['technique']))
man = dict(version=1,
           setup_cmd='./setup.sh',
           hooks=dict(guard='flatty_verif', enable='none needed: Verus reads source text, Kani harnesses use the public API (no hook commits)',
                      baseline_off_cmd='cd /repo && cargo test --workspace --no-fail-fast --offline', source_commits=[], add_only=True),
           engines=txt['engines'], checks=checks, notes=txt['notes'],
           not_applicable=[dict(property_id=p, reason=r) for p, r in txt.get('not_applicable', {}).items()] +
                          [dict(property_id=p, reason='no check built yet (work in progress)') for p in props
                           if p not in reg['properties'] and p not in txt.get('not_applicable', {})])
json.dump(man, open(os.path.join(ROOT, 'MANIFEST.json'), 'w'), indent=1)
print('MANIFEST.json: %d checks, %d not applicable' % (len(checks), len(man['not_applicable'])))
